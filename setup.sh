#!/bin/bash
# MANIFEST.setup_cmd: nothing is built or fetched; verify the interpreter, the tree and the seams the checks rely on.
set -e
cd "$(dirname "$(readlink -f "$0")")"
/venv/bin/python - <<'PY'
import sys
assert sys.version_info[:2] >= (3, 12), "sys.monitoring (3.12) is needed by the fault injector"
import os
sys.path.insert(0, "/repo")
import qlasskit, sympy, numpy, qiskit
assert os.path.realpath(qlasskit.__file__).startswith("/repo/"), qlasskit.__file__
print("qlasskit", qlasskit.__version__, "from", qlasskit.__file__, "| sympy", sympy.__version__, "| qiskit", qiskit.__version__)
PY
setarch x86_64 -R true
python3-vt -c "import jsonschema" 2>/dev/null || echo "note: python3-vt/jsonschema not available; evidence files are written but not schema-validated by the checks"
mkdir -p evidence replays
echo setup ok
