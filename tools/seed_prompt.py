#!/usr/bin/env python3
"""usage: tools/seed_prompt.py <C08|C10|C14> <worktree> [extra-guidance-file]  -> prints the task text for an independent
sub-agent that is to write a breaking change (round-13+ wording).  The agent is given ONLY the property's text, the
titles of the changes earlier agents produced for that property (so that it does not repeat them) and its own scratch
worktree -- nothing from /verif.  Afterwards: tools/import_seed.sh <worktree> <id>, write seeded/<id>/meta.json,
./check selftest-sensitivity <id>."""
import glob, json, os, sys
HERE = os.path.dirname(os.path.dirname(os.path.abspath(__file__)))
pid, wt = sys.argv[1], sys.argv[2]
extra = open(sys.argv[3]).read().strip() if len(sys.argv) > 3 else ""
p = {json.loads(l)["id"]: json.loads(l) for l in open(os.path.join(HERE, "properties.jsonl"))}[pid]
titles = []
for d in sorted(glob.glob(os.path.join(HERE, "seeded/*/meta.json"))):
    m = json.load(open(d))
    if pid in (m["property"] if isinstance(m["property"], list) else [m["property"]]):
        titles.append(m["title"])
print(f"""You are helping to evaluate a verification harness for the Python library dakk/qlasskit (a Python-to-quantum-circuit compiler). Your job is to play the role of a developer who introduces a realistic, subtle regression.

You have your own scratch git worktree of the repository at {wt} (detached HEAD). Work ONLY there. Do not read, list or touch /verif or /repo or any other worktree under /tmp. Run Python as `PYTHONPATH={wt} /venv/bin/python ...` and make sure `import qlasskit; qlasskit.__file__` points into {wt}.

The property you must break (this is the only thing you are told about what is being verified):

  id: {pid}
  title: {p['title']}
  statement: {p['statement']}
  quantifier: {p['quantifier']['text']}
  why unit tests cannot settle it: {p['why_tests_cant']}

TASK. Make a change to the library source under {wt}/qlasskit/ (NOT to the tests) that
  1. breaks this property,
  2. still imports/compiles, and still passes the repository's whole existing test suite: `cd {wt} && /venv/bin/python -m pytest -q -p no:cacheprovider --timeout=900 -n 8` must give the same passes as without your change (run it before and after; a handful of tests fail or are skipped for missing optional deps - that is fine as long as it is the same set),
  3. looks like something a real maintainer could plausibly commit (a refactor, an optimisation, a cache, a new convenience feature, a 'cleanup', a bug fix that over-reaches) - not sabotage like `if x == 42: return wrong`,
  4. needs something SPECIFIC to manifest - a particular multi-step sequence of operations, a failure/exception/interrupt at a particular point followed by further use, an unusual but legal input or option combination, a particular ordering of otherwise harmless calls, or two cooperating edit sites that each look fine alone. It must NOT be exposed at once by ordinary single-shot use (compile one function and look at it).

Earlier rounds already produced the changes listed below for this property. Do NOT repeat any of them or a close variant; find a different mechanism in a different part of the code if you can (read the code broadly first: qlasskit/qlassfun.py, qlasskit/ast2ast/, qlasskit/ast2logic/, qlasskit/boolopt/, qlasskit/compiler/, qlasskit/qcircuit/, qlasskit/algorithms/, qlasskit/decompiler/, qlasskit/types/). Prefer mechanisms in code paths and API options that the list below does not touch at all:
""" + "\n".join(f"  - {t}" for t in titles) + ("\n\n" + extra if extra else "") + f"""

DELIVERABLES, all written into the directory {wt}/_seed/ (create it):
  - patch.diff : `git -C {wt} diff -- qlasskit` of your change (library files only).
  - DEMO.py : a small stand-alone program that exits 0 when the property holds and exits 1 (printing what went wrong) when it is violated; it must exit 1 WITH your change and exit 0 WITHOUT it (verify both: `git stash` / `git stash pop`, or `git apply -R`). It takes the tree to test from PYTHONPATH. It must use only the public API in a way a user legitimately could.
  - NOTES.md : what the change is, why it looks plausible, exactly what is needed for it to manifest, and the pytest summary lines before and after.

Leave your change APPLIED in the worktree when you finish (uncommitted), with _seed/ filled in. In your final message give: a 2-3 sentence description of the change, what it needs to manifest, and the before/after pytest summary lines. Take care that the full test suite really passes with the change - a change that fails any test is useless to me.""")
