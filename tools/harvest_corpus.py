#!/venv/bin/python
"""One-off vendoring of the program corpus (DESIGN §3.2 source 1).

Walks /repo/test/*.py and /repo/docs for string constants that start with
"def ", tries each against the tree (fresh fork each, 20 s cap), and writes
/verif/sim/corpus.json.  Run by hand when the corpus is to be refreshed; the
checks only read the committed corpus.json and never touch /repo/test.
"""
import ast, json, os, re, sys, time, signal, hashlib

REPO = sys.argv[1] if len(sys.argv) > 1 else "/repo"
OUT = sys.argv[2] if len(sys.argv) > 2 else "/verif/sim/corpus.json"
sys.path.insert(0, REPO)


def strings_of_py(path):
    try:
        tree = ast.parse(open(path).read())
    except SyntaxError:
        return
    for n in ast.walk(tree):
        if isinstance(n, ast.Constant) and isinstance(n.value, str):
            yield n.value


def strings_of_doc(path):
    txt = open(path, errors="replace").read()
    # code blocks: collect runs of lines starting at a "def " line together with the indented body
    lines = txt.splitlines()
    i = 0
    while i < len(lines):
        m = re.match(r"^(\s*)def \w+\(", lines[i])
        if m:
            ind = len(m.group(1))
            blk = [lines[i][ind:]]
            j = i + 1
            while j < len(lines) and (lines[j].strip() == "" or len(lines[j]) - len(lines[j].lstrip()) > ind):
                blk.append(lines[j][ind:])
                j += 1
            yield "\n".join(blk).rstrip() + "\n"
            i = j
        else:
            i += 1


def candidates():
    seen = set()
    srcs = []
    for root, _, files in sorted(os.walk(os.path.join(REPO, "test"))):
        for f in sorted(files):
            if f.endswith(".py"):
                for s in strings_of_py(os.path.join(root, f)):
                    srcs.append(("test/" + f, s))
    for root, _, files in sorted(os.walk(os.path.join(REPO, "docs"))):
        for f in sorted(files):
            p = os.path.join(root, f)
            if f.endswith((".rst", ".md")):
                for s in strings_of_doc(p):
                    srcs.append(("docs/" + f, s))
            elif f.endswith(".ipynb"):
                try:
                    nb = json.load(open(p))
                except Exception:
                    continue
                for c in nb.get("cells", []):
                    if c.get("cell_type") == "code":
                        for s in strings_of_doc("".join(c.get("source", []))  and _tmp("".join(c.get("source", [])))):
                            srcs.append(("docs/" + f, s))
    for origin, s in srcs:
        s2 = s.strip("\n")
        if not s2.lstrip().startswith("def "):
            continue
        # dedent
        import textwrap
        s2 = textwrap.dedent(s2) + "\n"
        try:
            t = ast.parse(s2)
        except SyntaxError:
            continue
        if len(t.body) != 1 or not isinstance(t.body[0], ast.FunctionDef):
            continue
        if s2 in seen:
            continue
        seen.add(s2)
        yield origin, s2


def _tmp(text):
    import tempfile
    fd, p = tempfile.mkstemp()
    os.write(fd, text.encode())
    os.close(fd)
    _tmp.files.append(p)
    return p
_tmp.files = []


def probe(src):
    """returns dict with outcome, in a forked child"""
    r, w = os.pipe()
    pid = os.fork()
    if pid == 0:
        os.close(r)
        signal.alarm(20)
        out = {}
        try:
            import qlasskit
            from qlasskit import qlassf
            from qlasskit.qlassfun import UnboundQlassf
            t0 = time.time()
            qf = qlassf(src, to_compile=True)
            out["t"] = round(time.time() - t0, 4)
            if isinstance(qf, UnboundQlassf):
                out["outcome"] = "param"
                out["params"] = list(qf.parameters.keys())
            else:
                out["outcome"] = "ok"
                out["in_bits"] = sum(len(a) for a in qf.args)
                out["out_bits"] = len(qf.returns)
                out["nargs"] = len(qf.args)
                out["ret_bool"] = qf.returns.ttype is bool
                out["gates"] = qf.num_gates
                out["qubits"] = qf.num_qubits
                t0 = time.time()
                from qlasskit.boolopt import fastOptimizer
                qlassf(src, to_compile=True, bool_optimizer=fastOptimizer)
                out["t_fast"] = round(time.time() - t0, 4)
        except BaseException as e:
            out["outcome"] = "reject"
            out["exc"] = type(e).__name__
        os.write(w, json.dumps(out).encode())
        os._exit(0)
    os.close(w)
    data = b""
    while True:
        b = os.read(r, 65536)
        if not b:
            break
        data += b
    os.close(r)
    _, st = os.waitpid(pid, 0)
    if not data:
        return {"outcome": "timeout"}
    return json.loads(data)


def main():
    import qlasskit  # warm import in parent so forks are cheap
    assert qlasskit.__file__.startswith(REPO), qlasskit.__file__
    progs = []
    for origin, src in candidates():
        info = probe(src)
        name = ast.parse(src).body[0].name
        rec = {"id": hashlib.sha256(src.encode()).hexdigest()[:10], "origin": origin, "name": name, "src": src}
        rec.update(info)
        progs.append(rec)
    for p in _tmp.files:
        os.unlink(p)
    progs.sort(key=lambda r: r["id"])
    from collections import Counter
    print(Counter(r["outcome"] for r in progs))
    json.dump({"harvested_from": "pinned tree", "programs": progs}, open(OUT, "w"), indent=0, sort_keys=True)


main()
