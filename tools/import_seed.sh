#!/bin/bash
# usage: tools/import_seed.sh <worktree> <id>
# Confirms an independently written breaking change (left applied in <worktree>, deliverables in <worktree>/_seed/):
# the pinned suite passes with it, DEMO.py exits 1 with it and 0 without it; then stores it as /verif/seeded/<id>/.
# The caller writes meta.json afterwards (tools/import_seed.sh prints the facts to put there).
set -u
wt=$1; id=$2
dst=/verif/seeded/$id
cd "$wt" || exit 2
git diff -- qlasskit > /tmp/$id.patch
[ -s /tmp/$id.patch ] || { echo "empty diff"; exit 1; }
echo "== files: $(git diff --stat -- qlasskit | tail -1)"
echo "== suite with the change"
/venv/bin/python /verif/tools/baseline_check.py "$wt" | head -8
suite=$?
echo "== demo with the change"
PYTHONPATH=$wt timeout 600 /venv/bin/python _seed/DEMO.py > /tmp/$id.demo1 2>&1; d1=$?
tail -5 /tmp/$id.demo1; echo "exit $d1"
git apply -R /tmp/$id.patch || { echo "cannot reverse"; exit 1; }
echo "== demo without the change"
PYTHONPATH=$wt timeout 600 /venv/bin/python _seed/DEMO.py > /tmp/$id.demo0 2>&1; d0=$?
tail -3 /tmp/$id.demo0; echo "exit $d0"
git apply /tmp/$id.patch
if [ $d1 -eq 1 ] && [ $d0 -eq 0 ]; then
  mkdir -p $dst
  cp /tmp/$id.patch $dst/patch.diff
  cp _seed/DEMO.py $dst/DEMO.py
  [ -f _seed/NOTES.md ] && cp _seed/NOTES.md $dst/NOTES.md
  echo "stored in $dst (suite-check above must say 408/408)"
else
  echo "NOT CONFIRMED (with=$d1 without=$d0)"
fi
rm -f /tmp/$id.patch /tmp/$id.demo0 /tmp/$id.demo1
