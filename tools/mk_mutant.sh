#!/bin/bash
# usage: mk_mutant.sh <name>   -- takes the uncommitted diff of /tmp/wt-mut, checks that the pinned suite still
# passes with it, stores it as /verif/mutants/<name>.patch and resets the worktree
set -e
name=$1
cd /tmp/wt-mut
git diff > /tmp/mut.patch
[ -s /tmp/mut.patch ] || { echo "empty diff"; exit 1; }
if /venv/bin/python /verif/tools/baseline_check.py /tmp/wt-mut > /tmp/mut.log 2>&1; then
  cp /tmp/mut.patch /verif/mutants/$name.patch; echo "$name: suite passes -> kept ($(grep -c '^[+-][^+-]' /tmp/mut.patch) changed lines)"
else
  echo "$name: SUITE FAILS -> dropped"; tail -5 /tmp/mut.log
fi
git checkout -q -- .
