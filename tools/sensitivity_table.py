#!/usr/bin/env python3
"""Turn the output of `./check selftest-sensitivity` (one or more log files) into /verif/mutants/README.md"""
import json, os, re, sys, glob
HERE = os.path.dirname(os.path.dirname(os.path.abspath(__file__)))
rows = {}
for path in sys.argv[1:]:
    for ln in open(path):
        m = re.match(r"^sensitivity (\S+) \[(C\d+)\]: (DETECTED|missed) \(exit (\d+), (\d+)s\) (.*)$", ln.strip())
        if m:
            name, prop, res, rc, secs, cls = m.groups()
            if rc == "2":
                continue  # harness error (e.g. overloaded machine): not a verdict
            rows[(name, prop)] = (res, int(secs), cls)
def first_line(p):
    for ln in open(p):
        if ln.startswith(("+", "-")) and not ln.startswith(("+++", "---")):
            return ln.strip()[:90]
    return ""
out = ["# Breaking changes used by `./check selftest-sensitivity`", "",
       "Every change below keeps the repository's 408 pinned tests green (`tools/mk_mutant.sh`, `tools/baseline_check.py`) and breaks the property named in its prefix.",
       "`mutants/*.patch` were written by me while building the checks (including the reverts of the seven `fix:` commits);",
       "`seeded/<id>/` were written by independent sub-agents that saw only the property text and a scratch worktree.",
       "Result = the property's quick tier (16 lifetimes, <= 150 s) on a scratch worktree with the change applied.", "",
       "| change | property | result | first violation classes reported |", "|---|---|---|---|"]
for (name, prop), (res, secs, cls) in sorted(rows.items()):
    mp = os.path.join(HERE, "seeded", name, "meta.json")
    exp = json.load(open(mp)).get("expected_detected", True) if os.path.exists(mp) else True
    if not exp:
        res = "not reported, as expected" if res == "missed" else "REPORTED although not expected"
        cls = json.load(open(mp)).get("why_not_expected", "")
    out.append(f"| `{name}` | {prop} | **{res}** ({secs}s) | `{cls[:300]}` |")
out += ["", "## What each seeded change needs in order to manifest", ""]
for d in sorted(glob.glob(os.path.join(HERE, "seeded", "*"))):
    mp = os.path.join(d, "meta.json")
    if os.path.exists(mp):
        m = json.load(open(mp))
        out.append(f"* `{os.path.basename(d)}` ({m['property']}): {m['title']} -- needs: {m['needs']}")
open(os.path.join(HERE, "mutants", "README.md"), "w").write("\n".join(out) + "\n")
print("\n".join(out[9:9 + len(rows)]))
