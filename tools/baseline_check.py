#!/venv/bin/python
"""Run the repository's pinned baseline (guard OFF) and compare with /root/.vp/BASELINE.json stable_pass.
usage: baseline_check.py [repo_dir] [-n WORKERS]   exit 0 iff every stable_pass test passed."""
import json, os, subprocess, sys, tempfile
import xml.etree.ElementTree as ET

repo = sys.argv[1] if len(sys.argv) > 1 and not sys.argv[1].startswith("-") else "/repo"
nw = sys.argv[sys.argv.index("-n") + 1] if "-n" in sys.argv else "8"
base = json.load(open("/root/.vp/BASELINE.json"))
fd, xml = tempfile.mkstemp(suffix=".xml")
os.close(fd)
env = dict(os.environ)
env.pop("QLASSKIT_VERIF", None)
cmd = ["/venv/bin/python", "-m", "pytest", "-q", "-p", "no:cacheprovider", "--timeout=900", "--continue-on-collection-errors", f"--junitxml={xml}"]
if nw != "0":
    cmd += ["-n", nw]
r = subprocess.run(cmd, cwd=repo, env=env, capture_output=True, text=True)
passed = set()
for tc in ET.parse(xml).getroot().iter("testcase"):
    if not any(ch.tag in ("failure", "error", "skipped") for ch in tc):
        passed.add(f"{tc.get('classname')}::{tc.get('name')}")
os.unlink(xml)
missing = [t for t in base["stable_pass"] if t not in passed]
print(f"baseline: {len(base['stable_pass']) - len(missing)}/{len(base['stable_pass'])} stable tests pass; {len(passed)} passed in total")
for t in missing[:20]:
    print("  NOT PASSING:", t)
print(r.stdout.strip().splitlines()[-1] if r.stdout.strip() else r.stderr[-300:])
sys.exit(1 if missing else 0)
