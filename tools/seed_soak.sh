#!/bin/bash
# Soak the quick tiers of all checks on the unchanged tree under several VERIF_SEEDs (no evidence written).
# usage: tools/seed_soak.sh [first_seed] [last_seed]   -> one line per (property, seed); exit 1 if any run is not clean
cd "$(dirname "$(readlink -f "$0")")/.."
a=${1:-2}; b=${2:-6}; bad=0
for s in $(seq $a $b); do
  for p in C10 C08 C14; do
    out=$(VERIF_SEED=$s ./check $p --tier quick --no-evidence --no-fresh 2>/dev/null | grep -v '^KNOWN-FINDING' | tail -3)
    rc=$?
    line=$(echo "$out" | tail -1)
    echo "seed $s $line"
    echo "$out" | grep -q "^VIOLATION" && { bad=1; echo "$out" | grep "^VIOLATION"; }
    echo "$line" | grep -q "exit 0" || bad=1
  done
done
exit $bad
