#!/usr/bin/env python3
"""Writes /verif/MANIFEST.json (kept as a script so the not_applicable reasons live next to DESIGN §6)."""
import json, os
HERE = os.path.dirname(os.path.dirname(os.path.abspath(__file__)))

NA = {
 "C01": "pure function of (source, optimizer profile, argument bits): no order, fault or ambient seam enters the statement; deciding it is program/input enumeration, another technique. Its independence from process history is C10.",
 "C02": "a synthesised circuit's action on basis states is a pure function of (expression list, settings); the synthesis state is born and dies inside one compile() and is driven only by the program text.",
 "C03": "cleanliness of scratch qubits per (program, input) is a pure function; nothing to schedule or fault.",
 "C04": "optimizer profiles are pure maps on expression lists; equivalence over all assignments is exhaustive evaluation, not simulation.",
 "C05": "encode -> circuit -> decode is a pure round trip per (program, value).",
 "C06": "the xor-oracle action per (program, x, y) is pure; C02/C03 with one more input bit.",
 "C07": "composition meaning is pure in (callee, caller, input); its only history clause ('the callee object is unchanged') is verbatim inside C10 and is decided there (oracle O2, role 'def').",
 "C09": "exhaustive enumeration of 2^w bit patterns per type is model checking of a pure codec.",
 "C11": "the decompiler is a pure function of a gate list; its section splitting is a fold over that list with no external event.",
 "C12": "a pure circuit -> circuit map judged by unitary equality; its 'input not modified' clause is aliasing but belongs neither to C14's operators nor to C10's operations.",
 "C13": "exporter output is a pure function of the circuit, judged against third-party frameworks; no fault or order in the statement.",
 "C15": "the exact output distribution of a fixed circuit is a state-vector calculation; form-independence is a comparison between pure results. History-sensitivity of Grover construction is C10.",
 "C16": "as C15, for three other fixed circuits.",
 "C17": "the only I/O surface (tools/*) has no retry, timeout, partial-result or resume path: an injected short read, EINTR, ENOSPC or EPIPE can only become an exception, about which the statement is silent; fault-free it is a pure function of (script, options).",
 "C18": "pyqubo is not installed (the export cannot run here) and the statement is a pure function of the function.",
}

def chk(pid, section, text, note, technique):
    return {
        "property_id": pid,
        "quick_cmd": f"./check {pid} --tier quick",
        "thorough_cmd": f"./check {pid} --tier thorough",
        "evidence_file": f"evidence/{pid}.json",
        "replay_cmd_template": f"./check {pid} --replay {{path}}",
        "engine": "qlasskit-dst",
        "level_claimed": {"category": "exploration", "text": text, "design_ref": section},
        "level_note": note,
        "technique": technique,
    }

CHECKS = {
 "C10": chk("C10", "DESIGN.md §3, §10",
   "Seeded search over process lifetimes: each lifetime is one fresh interpreter that executes a sequence of generated histories of public-API operations back to back (so every history runs on top of what its predecessors left in the process), over the vendored corpus, a typed grammar, families built to collide and near-twins derived by one AST mutation under the same name, with rejected operations (front end, back end, refused recompiles followed by another use of the object), sympy-cache flushes, garbage collections and (thorough) interrupts injected at seeded library source lines. Oracles: O2 every live object keeps its fingerprint after every operation; O1/O3-late every operation's dependency closure re-executed on fresh objects, in reverse order, in the same by then well used process reproduces the history's result; O1/O3 canary operations spliced into every history equal their reference computed alone in a fork of an import-only process; O1/O3-cross every lifetime is run twice with its histories in opposite order and every operation must give the same result after both pasts (differences are arbitrated by a freshly forked reference). A clean batch is evidence, not proof.",
   "Trusts: the fingerprint covers the observable state the property lists; fork of an import-only process == fresh interpreter (cross-checked on a sample each batch); hash seed, sympy cache size and ASLR are held equal between history and reference. CPython, sympy, qiskit are real; only the ipykernel marker module and a temp directory are stubs.",
   "deterministic simulation: seeded API-operation histories with fault injection, reference-model oracles"),
 "C08": chk("C08", "DESIGN.md §4, §10",
   "Seeded bind histories under the simulator: 1-5 unbound functions (32 typed templates whose meaning is plain Python, over bool / Qint / Qfixed / Qchar / Qlist / Qmatrix / nested Tuple parameters; corpus programs and one-mutation near-twins of them with arguments re-annotated as parameters; from source strings or real defs; with and without defs=) are bound 3-24 times, repeating and alternating values, keyword orders, value forms (tuples, lists, one-shot iterators, lazily built nested rows, one object for two parameters) and objects, with wrong-arity / unknown-keyword / out-of-range binds and cache flushes, collections and interrupts injected inside bind(). At every bind: B0 bind rejects only what cannot be specialised by hand either; B2 the exhaustive truth table equals that of the program with the assignments prepended by hand and compiled the ordinary way (arbitrated by Python / the typed-argument form); B1 it equals plain Python's value (generated functions), with a diagnosis that separates the two open known findings (declared Qint / Qfixed type dropped) from everything else; B3 the unbound object and its callees are unaltered; B4 the same bind gives the same result wherever it is made and the same as a fresh unbound object bound once; B5 the classical function the bound object carries (f()) is the Python function with the parameters set. B6 the bound function's compiled circuit, run classically on every basis input, computes what the circuit of the hand-built specialisation compiled with the same options computes (differential: a circuit/table disagreement both share is the compiler's, C02, and is only counted). A clean batch is evidence, not proof.",
   "Trusts: plain-Python evaluation on ints/bools/floats/characters/tuples as the meaning of the generated programs (templates use only operators whose Python value is the meaning at every width); exhaustive tables up to 8 input bits (12 for the typed-argument form used in the diagnosis). Two open known findings (declared Qint width / declared Qfixed type dropped by bind) are matched by their diagnosis only; every other disagreement is a violation.",
   "deterministic simulation: seeded bind histories with fault injection, differential + Python-value oracles"),
 "C14": chk("C14", "DESIGN.md §5",
   "Model-based state machine run under the seeded simulator: real QCircuit/QCircuitEnhanced objects are driven by generated histories of composition operators (append_circuit with injective remaps, +, +=, += gate tuples incl. one gate object or one wires list used twice, repeat(1..6), copy, copy(vanilla), remove_identities, qft;iqft on any qubit sub-list given as indices or names, add_qubit), builder calls by index or by remembered name, and opaque public mutators (naming, ancilla management, uncompute) on any pool member, with composition operators interrupted (KeyboardInterrupt at a seeded library line) in a separate arm, mirrored by a reference model (qubit count + unitary composed by the model's own rule + the harness's own name table) and checked after every step over the whole pool: the operator completes (A0), the target/result has the model's unitary (A1, incl. after a later uncompute() following remove_identities), nobody but the target changed structurally or in its bookkeeping (A2); independence over time follows from re-checking after every later mutation. A clean batch is evidence, not proof.",
   "Trusts: one gate-list -> matrix function (numpy) shared by model and observer (a gate whose class/attributes and whose name stand for different matrices is reported as unobservable); QCircuit.random and compiled circuits trusted at creation only; remaps injective and in range; repeat for n >= 1; circuits up to 5-6 qubits.",
   "deterministic simulation: seeded operator histories on a circuit pool against a unitary reference model"),
}

def main(claimed):
    man = {
      "version": 1,
      "setup_cmd": "./setup.sh",
      "hooks": {"guard": "QLASSKIT_VERIF", "enable": "no source hook was needed: every seam is an environment variable (PYTHONHASHSEED, SYMPY_CACHE_SIZE, SYMPY_USE_CACHE), sys.monitoring, sys.modules or setarch -R; checks run /repo's working tree as it is, with QLASSKIT_VERIF=1 in the environment (read by nothing in /repo)",
                "baseline_off_cmd": "cd /repo && /venv/bin/python -m pytest -ra -q -p no:cacheprovider --timeout=900 --continue-on-collection-errors",
                "source_commits": [], "add_only": True},
      "engines": [{"name": "qlasskit-dst", "path": "sim/", "serves_properties": claimed, "kind_free_text": "own seeded plan generator + in-process simulated host (process lifetimes) + pristine zygote for references + sys.monitoring fault injector + dependency-closed ddmin; no framework"}],
      "checks": [CHECKS[c] for c in claimed],
      "not_applicable": [{"property_id": k, "reason": v} for k, v in sorted(NA.items()) if k not in claimed],
      "notes": "Technique family: deterministic simulation with fault injection. See DESIGN.md §0 for the verdict per property, §10 for decisions changed while building. Repairs of genuine defects found by the checks are 'fix:' commits in /repo, listed in known_findings.json as fixed.",
    }
    json.dump(man, open(os.path.join(HERE, "MANIFEST.json"), "w"), indent=1)

if __name__ == "__main__":
    import sys
    NA_PENDING = {"C08": "check under construction in this session (DESIGN §4); will be claimed when it lands", "C14": "check under construction in this session (DESIGN §5); will be claimed when it lands"}
    claimed = [c for c in ("C08", "C10", "C14") if c in CHECKS]
    for k, v in NA_PENDING.items():
        if k not in claimed:
            NA[k] = v
    main(claimed)
