"""Batch driver (DESIGN §2.5-2.7, §9, §10): lifetimes -> nodes -> oracles -> shrink -> replay -> evidence.

    runner.py <PROP> --tier quick|thorough [--repo DIR] [--lifetimes N] [--segments S] [--workers W] [--budget SEC]
    runner.py <PROP> --replay FILE [--repo DIR]

Exit 0: property held on everything explored (KNOWN-FINDING lines allowed).
Exit 1: `VIOLATION property=<id> replay=<path>` printed for a violation not in known_findings.json.
Exit 2: harness error (non-reproducing violation, > 5 % timeouts, fork/fresh mismatch, dead nodes).
"""
import argparse
import copy
import importlib
import json
import os
import subprocess
import sys
import threading
import time

HERE = os.path.dirname(os.path.abspath(__file__))
VERIF = os.path.dirname(HERE)
sys.path.insert(0, HERE)

from core import canon, digest, run_seed  # noqa: E402
import shrink as shrinker  # noqa: E402

PY = "/venv/bin/python"
MACHINES = {"C10": "m_c10", "C08": "m_c08", "C14": "m_c14"}

TIERS = {
    # lifetimes per batch; budget = wall seconds after which no new history is dispatched
    "C10": {"quick": {"lifetimes": 32, "budget": 120, "fresh": 6}, "thorough": {"lifetimes": 400, "budget": 1500, "fresh": 48}},
    "C08": {"quick": {"lifetimes": 32, "budget": 100, "fresh": 4}, "thorough": {"lifetimes": 400, "budget": 1200, "fresh": 24}},
    "C14": {"quick": {"lifetimes": 32, "budget": 80, "fresh": 2}, "thorough": {"lifetimes": 400, "budget": 900, "fresh": 8}},
}


def log(*a):
    print(*a, file=sys.stderr, flush=True)


class Node:
    """one simulated host process (node.py) with pinned interpreter-level seams"""

    def __init__(self, repo, env, backends, oneshot=False):
        e = dict(os.environ)
        e["PYTHONHASHSEED"] = str(env.get("hashseed", 0))
        e.pop("SYMPY_USE_CACHE", None)
        e.pop("SYMPY_CACHE_SIZE", None)
        cache = env.get("cache", 1000)
        if cache == "off":
            e["SYMPY_USE_CACHE"] = "no"
        else:
            e["SYMPY_CACHE_SIZE"] = str(cache)
        e["QLASSKIT_VERIF"] = "1"
        e["PYTHONDONTWRITEBYTECODE"] = "1"
        e.pop("PYTHONPATH", None)
        for kv in os.environ.get("VERIF_NODE_ENV", "").split(","):
            if "=" in kv:
                e[kv.split("=", 1)[0]] = kv.split("=", 1)[1]
        cmd = ["setarch", "x86_64", "-R", PY, os.path.join(HERE, "node.py"), "--repo", repo, "--backends", backends]
        if oneshot:
            cmd.append("--oneshot")
        self.p = subprocess.Popen(cmd, stdin=subprocess.PIPE, stdout=subprocess.PIPE, stderr=subprocess.DEVNULL if not os.environ.get("VERIF_DEBUG") else None, env=e, text=True, bufsize=1)
        hello = self.p.stdout.readline()
        if not hello:
            raise RuntimeError("node failed to start")
        self.hello = json.loads(hello)

    def call(self, job, timeout=150):
        """send one job, wait for one result line; None if the node died or stalled"""
        try:
            self.p.stdin.write(json.dumps(job) + "\n")
            self.p.stdin.flush()
        except Exception:
            return None
        res = [None]

        def rd():
            try:
                res[0] = self.p.stdout.readline()
            except Exception:
                res[0] = ""

        t = threading.Thread(target=rd, daemon=True)
        t.start()
        t.join(timeout)
        if t.is_alive() or not res[0]:
            self.kill()
            return None
        try:
            return json.loads(res[0])
        except Exception:
            return None

    def close(self):
        try:
            self.p.stdin.write(json.dumps({"cmd": "quit"}) + "\n")
            self.p.stdin.flush()
            self.p.stdin.close()
            self.p.wait(timeout=10)
        except Exception:
            self.kill()

    def kill(self):
        try:
            self.p.kill()
            self.p.wait(timeout=10)
        except Exception:
            pass


def backends_for(tier):
    return "qiskit" if tier == "quick" else "qiskit,cirq,qutip"


def run_lifetime(prop, lt, repo, tier, results=None, deadline=None, stop_on_violation=True, detail=False, table=None):
    """execute a lifetime's segments in one fresh node (restarting it after a timeout).
    Returns list of per-segment results (None = not run)."""
    segs = lt["segments"]
    out = results if results is not None else [None] * len(segs)
    node = None
    past_start = 0
    try:
        for j, seg in enumerate(segs):
            if deadline is not None and time.monotonic() > deadline:
                break
            if node is None:
                try:
                    node = Node(repo, lt["env"], backends_for(tier))
                except Exception as e:
                    out[j] = {"status": "harness_error", "where": "node-start", "err": str(e)}
                    break
                past_start = j
                if table is not None:
                    node.call({"prop": prop, "set_table": table})
            res = node.call({"prop": prop, "plan": seg, "job": j, "detail": detail, "timeout": 30 if tier == "quick" else 60})
            if res is None:
                out[j] = {"status": "harness_error", "where": "node-died"}
                node = None
                continue
            res["past_start"] = past_start
            out[j] = res
            if res.get("node", {}).get("retire"):
                node.kill()
                node = None
                continue
            if stop_on_violation and (res.get("violation") or res.get("soft")):
                if effective_violation(prop, importlib.import_module(MACHINES[prop]), res):
                    break
    finally:
        if node is not None:
            node.close()
    return out


class Tables:
    """pristine reference of every canary closure, once per environment (one zygote fork each);
    built in the background, a lifetime starts as soon as its environment's table is there"""

    def __init__(self, prop, m, canaries, lifetimes, repo, tier, nthreads=4):
        self.tables = {}
        self.failed = set()
        self.lock = threading.Lock()
        self.enabled = bool(canaries) and hasattr(m, "reftable_jobs")
        self.forks = 0
        if not self.enabled:
            return
        jobs = m.reftable_jobs(canaries)
        envs = {}
        for lt in lifetimes:
            envs.setdefault(canon(lt["env"]), lt["env"])
        todo = list(envs)  # in order of first use

        def work():
            while True:
                with self.lock:
                    if not todo:
                        return
                    ek = todo.pop(0)
                r = None
                try:
                    node = Node(repo, envs[ek], backends_for(tier))
                    try:
                        r = node.call({"prop": prop, "reftable": jobs}, timeout=900)
                    finally:
                        node.close()
                except Exception:
                    pass
                with self.lock:
                    if r and r.get("status") == "ok":
                        self.tables[ek] = r["table"]
                        self.forks += len(r["table"])
                    else:
                        self.failed.add(ek)

        self.threads = [threading.Thread(target=work, daemon=True) for _ in range(nthreads)]
        for t in self.threads:
            t.start()

    def state(self, env):
        """'ready' | 'wait' | 'failed'"""
        if not self.enabled:
            return "ready"
        ek = canon(env)
        with self.lock:
            if ek in self.tables:
                return "ready"
            if ek in self.failed:
                return "failed"
        return "wait"

    def get(self, env):
        return self.tables.get(canon(env)) if self.enabled else None


def run_batch(prop, lifetimes, repo, workers, budget, tier, tables=None):
    results = [[None] * len(lt["segments"]) for lt in lifetimes]
    lock = threading.Lock()
    t0 = time.monotonic()
    pending = list(range(len(lifetimes)))
    done = [0]
    started = [0]
    # the budget is a cap on STARTING further lifetimes, counted from the moment the first one can start
    # (reference tables ready); a minimum amount of work is done whatever the machine's load
    min_start = min(len(lifetimes), 8)
    clock = {"t": None}

    def work():
        while True:
            L = None
            with lock:
                over = clock["t"] is not None and time.monotonic() - clock["t"] > budget
                if not pending or (over and started[0] >= min_start) or time.monotonic() - t0 > 6 * budget + 300:
                    return
                for cand in pending:
                    st = tables.state(lifetimes[cand]["env"]) if tables is not None else "ready"
                    if st == "ready":
                        L = cand
                        break
                    if st == "failed":
                        results[cand][0] = {"status": "harness_error", "where": "reference-table"}
                        pending.remove(cand)
                        break
                if L is not None:
                    pending.remove(L)
                    started[0] += 1
                    if clock["t"] is None:
                        clock["t"] = time.monotonic()
            if L is None:
                time.sleep(0.2)
                continue
            dl = None if started[0] <= min_start else clock["t"] + budget * 1.25
            run_lifetime(prop, lifetimes[L], repo, tier, results[L], deadline=dl, stop_on_violation=True, table=tables.get(lifetimes[L]["env"]) if tables is not None else None)
            with lock:
                done[0] += 1
                if done[0] % 8 == 0:
                    log(f"  [{prop}] {done[0]}/{len(lifetimes)} lifetimes, {time.monotonic() - t0:.0f}s")

    threads = [threading.Thread(target=work, daemon=True) for _ in range(workers)]
    for t in threads:
        t.start()
    for t in threads:
        t.join()
    return results, time.monotonic() - t0


def fresh_crosscheck(prop, lifetimes, repo, tier, count, workers=3):
    """fork-of-import-only-zygote == fresh interpreter, on a sample of dependency closures"""
    m = importlib.import_module(MACHINES[prop])
    out = {"checked": 0, "mismatch": []}
    if not hasattr(m, "crosscheck_jobs") or count <= 0:
        return out
    jobs = []
    for lt in lifetimes:
        for plan, extra in m.crosscheck_jobs(lt["segments"], 2):
            if len(jobs) < count:
                jobs.append((lt["env"], plan, extra))
    lock = threading.Lock()

    def work():
        while True:
            with lock:
                if not jobs:
                    return
                env, plan, extra = jobs.pop(0)
            res = []
            for oneshot in (False, True):
                try:
                    node = Node(repo, env, backends_for(tier), oneshot=oneshot)
                except Exception:
                    res.append(None)
                    continue
                try:
                    r = node.call(dict({"prop": prop, "plan": plan, "job": 0, "closure": True}, **extra))
                finally:
                    if oneshot:
                        node.kill()
                    else:
                        node.close()
                res.append(r)
            a, b = res
            da = digest((a or {}).get("records"))
            db = digest((b or {}).get("records"))
            with lock:
                out["checked"] += 1
                if a is None or b is None or da != db or not (a or {}).get("records"):
                    out["mismatch"].append({"seed": plan.get("seed"), "extra": extra, "fork": da, "fresh": db})

    ts = [threading.Thread(target=work, daemon=True) for _ in range(workers)]
    for t in ts:
        t.start()
    for t in ts:
        t.join()
    return out


def load_known():
    p = os.path.join(VERIF, "known_findings.json")
    if not os.path.exists(p):
        return []
    return json.load(open(p)).get("findings", [])


def match_known(prop, vclass, known):
    for k in known:
        if k.get("property") != prop or k.get("status") != "open":
            continue
        mt = k.get("match", {})
        if mt.get("oracle") == vclass[0] and mt.get("op_kind") == vclass[1] and mt.get("role", "") == vclass[2] and sorted(mt.get("changed", [])) == vclass[3]:
            return k
    return None


def write_evidence(prop, tier, seed, coverage, wall, violations, assumptions):
    ev = {"property_id": prop, "tier": tier, "seed": seed, "level": "exploration", "coverage": coverage, "assumptions": assumptions, "wall_s": round(wall, 2), "violations": violations}
    os.makedirs(os.path.join(VERIF, "evidence"), exist_ok=True)
    path = os.path.join(VERIF, "evidence", f"{prop}.json")
    with open(path, "w") as f:
        json.dump(ev, f, indent=1, sort_keys=True)
    # validate with the tooling venv's jsonschema when it is there (the /venv has none)
    try:
        schema = "/root/.vp/EVIDENCE.schema.json"
        if not os.path.exists(schema):
            schema = os.path.join(VERIF, "tools", "EVIDENCE.schema.json")
        r = subprocess.run(["python3-vt", "-c", "import json,sys,jsonschema; jsonschema.validate(json.load(open(sys.argv[1])), json.load(open(sys.argv[2])))", path, schema], capture_output=True, text=True, timeout=60)
        if r.returncode != 0 and "No such file" not in r.stderr and "ModuleNotFound" not in r.stderr:
            log("evidence does not validate:", r.stderr[-800:])
            return False
    except Exception:
        pass
    return True


def freeze(lt, results, upto):
    """the part of a lifetime that one process actually executed before (and including) segment
    `upto`, with every fault instant frozen to the absolute line index that was used"""
    start = results[upto].get("past_start", 0)
    out = {"prop": lt["prop"], "seed": lt["seed"], "tier": lt["tier"], "env": lt["env"], "segments": []}
    for j in range(start, upto + 1):
        seg = copy.deepcopy(lt["segments"][j])
        r = results[j]
        if r is None or r.get("status") != "ok":
            continue  # a timed-out segment retired its process: it is not part of this past
        if r.get("placed") is not None:
            seg["faults"] = [{"op": f["op"], "kind": f["kind"], "frac": f["frac"], "k": f["k"]} for f in r["placed"]]
        out["segments"].append(seg)
    return out


def effective_violation(prop, m, r, known=None):
    """the hard violation of a history, else its first soft one that no open known finding explains"""
    if r is None or r.get("status") != "ok":
        return None
    if r.get("violation"):
        return r["violation"]
    known = load_known() if known is None else known
    for v in r.get("soft", []):
        if match_known(prop, m.violation_class(v), known) is None:
            return v
    return None


def first_violation(m, results, prop=None):
    for j, r in enumerate(results):
        v = effective_violation(prop or (m.PROP if hasattr(m, "PROP") else ""), m, r)
        if v:
            return j, v
    return None, None


def shrink_lifetime(prop, m, lt, vclass, repo, tier, max_tests=90, table=None):
    """segments first (whole histories), then ops inside the remaining segments, then knobs"""
    used = [0]

    def test(cand):
        if used[0] >= max_tests or not cand["segments"]:
            return None
        used[0] += 1
        res = run_lifetime(prop, cand, repo, tier, table=table)
        j, v = first_violation(m, res)
        if v is not None and m.violation_class(v) == vclass:
            c2 = dict(cand)
            c2["segments"] = cand["segments"][: j + 1]
            return c2
        return None

    def with_segments(cur, segs):
        c = dict(cur)
        c["segments"] = segs
        return c

    cur = lt
    # 1. the violating segment alone?
    if len(cur["segments"]) > 1:
        c = test(with_segments(cur, cur["segments"][-1:]))
        if c is not None:
            cur = c
    # 2. ddmin over the preceding segments
    n = 2
    while len(cur["segments"]) > 1 and used[0] < max_tests:
        pre = cur["segments"][:-1]
        chunk = -(-len(pre) // n)
        progressed = False
        for i in range(0, len(pre), chunk):
            segs = pre[:i] + pre[i + chunk :] + cur["segments"][-1:]
            c = test(with_segments(cur, segs))
            if c is not None:
                cur, n, progressed = c, max(n - 1, 2), True
                log(f"shrink: {len(cur['segments'])} segments left")
                break
        if not progressed:
            if chunk <= 1:
                break
            n = min(len(pre), n * 2)
    # 3. ops inside each remaining segment, last first
    for si in range(len(cur["segments"]) - 1, -1, -1):
        if used[0] >= max_tests:
            break

        def seg_test(p, si=si):
            segs = list(cur["segments"])
            segs[si] = p
            c = test(with_segments(cur, segs))
            return c is not None and len(c["segments"]) == len(segs)

        if si < len(cur["segments"]):
            small, _ = shrinker.shrink(cur["segments"][si], m, seg_test, max_tests=max(0, max_tests - used[0]), log=log)
            segs = list(cur["segments"])
            segs[si] = small
            cur = with_segments(cur, segs)
    return cur, used[0]


def main():
    ap = argparse.ArgumentParser()
    ap.add_argument("prop")
    ap.add_argument("--tier", default=os.environ.get("VERIF_TIER", "quick"))
    ap.add_argument("--repo", default="/repo")
    ap.add_argument("--lifetimes", type=int)
    ap.add_argument("--segments", type=int)
    ap.add_argument("--workers", type=int, default=int(os.environ.get("VERIF_WORKERS", "16")))
    ap.add_argument("--budget", type=float)
    ap.add_argument("--replay")
    ap.add_argument("--no-evidence", action="store_true")
    ap.add_argument("--no-shrink", action="store_true")
    ap.add_argument("--no-fresh", action="store_true")
    ap.add_argument("--no-cross", action="store_true")
    ap.add_argument("--dump-digests")
    a = ap.parse_args()
    prop = a.prop
    if prop not in MACHINES:
        log("unknown property", prop)
        return 2
    m = importlib.import_module(MACHINES[prop])
    repo = os.path.realpath(a.repo)
    if a.replay:
        return replay(prop, m, a.replay, repo)
    tier = a.tier if a.tier in ("quick", "thorough") else "quick"
    seed = int(os.environ.get("VERIF_SEED", "1"))
    tcfg = TIERS[prop][tier]
    nlt = a.lifetimes or tcfg["lifetimes"]
    budget = a.budget or tcfg["budget"]
    t_start = time.monotonic()
    canaries = m.make_canaries(seed, tier) if hasattr(m, "make_canaries") else None
    cross = bool(getattr(m, "CROSS", False)) and not a.no_cross
    if cross:
        # lifetime 2i+1 is lifetime 2i with its histories in reverse order: every history then runs
        # after two disjoint pasts (and the first history of one is the last of the other)
        lifetimes = []
        for i in range((nlt + 1) // 2):
            lt = m.generate_lifetime(run_seed(prop, seed, i), tier, a.segments, canaries)
            lifetimes.append(lt)
            tw = dict(lt)
            tw["segments"] = list(reversed(lt["segments"]))
            tw["twin_of"] = len(lifetimes) - 1
            lifetimes.append(tw)
    else:
        lifetimes = [m.generate_lifetime(run_seed(prop, seed, i), tier, a.segments, canaries) for i in range(nlt)]
    nseg = sum(len(lt["segments"]) for lt in lifetimes)
    log(f"[{prop}] tier={tier} VERIF_SEED={seed} lifetimes={nlt} histories={nseg} budget={budget}s workers={a.workers} repo={repo} (generated in {time.monotonic() - t_start:.1f}s)")

    fresh_box = {}

    def fr():
        fresh_box["r"] = fresh_crosscheck(prop, lifetimes, repo, tier, 0 if a.no_fresh else tcfg["fresh"])

    tables = Tables(prop, m, canaries, lifetimes, repo, tier)
    ft = threading.Thread(target=fr, daemon=True)
    ft.start()
    results, wall = run_batch(prop, lifetimes, repo, a.workers, budget, tier, tables)
    ft.join()
    fresh = fresh_box.get("r", {"checked": 0, "mismatch": []})

    if a.dump_digests:
        with open(a.dump_digests, "w") as f:
            for L, rs in enumerate(results):
                for j, r in enumerate(rs):
                    if r is not None:
                        f.write(f"{L} {j} {lifetimes[L]['segments'][j]['seed']} {r.get('status')} {r.get('digest')}\n")

    # ---------------- cross-lifetime oracle: the same history after two disjoint pasts
    cross_stats = {"histories_compared": 0, "ops_compared": 0, "mismatching_histories": 0, "confirmed": 0}
    if cross:
        cands = []
        for b in range(1, len(lifetimes), 2):
            a_i = lifetimes[b]["twin_of"]
            n = len(lifetimes[a_i]["segments"])
            for j in range(n):
                ra, rb = results[a_i][j], results[b][n - 1 - j]
                if not (ra and rb and ra.get("status") == "ok" and rb.get("status") == "ok") or ra.get("violation") or rb.get("violation"):
                    continue
                cross_stats["histories_compared"] += 1
                oa = {x[0]: x for x in ra.get("ops", [])}
                ob = {x[0]: x for x in rb.get("ops", [])}
                bad = None
                for k in sorted(set(oa) & set(ob)):
                    xa, xb = oa[k], ob[k]
                    if xa[1].startswith(("faulted", "skipped")) or xb[1].startswith(("faulted", "skipped")):
                        continue
                    cross_stats["ops_compared"] += 1
                    if (xa[1], xa[2]) != (xb[1], xb[2]) and bad is None:
                        bad = k
                if bad is not None:
                    cross_stats["mismatching_histories"] += 1
                    cands.append((a_i, j, b, n - 1 - j, bad))
        seen_kinds = {}
        for a_i, j, b, jb, k in cands:
            opk = next((o["kind"] for o in lifetimes[a_i]["segments"][j]["ops"] if o["id"] == k), "?")
            if seen_kinds.get(opk, 0) >= 2 or cross_stats["confirmed"] >= 6:
                continue
            seen_kinds[opk] = seen_kinds.get(opk, 0) + 1
            # which of the two deviates from a fresh process? ask for a pristine reference of that op
            for L, jj in ((b, jb), (a_i, j)) if jb > j else ((a_i, j), (b, jb)):
                lt = freeze(lifetimes[L], results[L], jj)
                lt["segments"][-1]["pristine"] = sorted(set(lt["segments"][-1].get("pristine", []) + [k]))
                conf = run_lifetime(prop, lt, repo, tier, table=tables.get(lt["env"]))
                cj, cv = first_violation(m, conf, prop)
                if cv is not None:
                    log(f"[{prop}] cross-lifetime difference at history seed {lifetimes[L]['segments'][jj]['seed']} op #{k} ({opk}): lifetime {L} deviates from a fresh process")
                    results[L][jj]["violation"] = cv
                    results[L][jj]["cross_plan"] = lt
                    cross_stats["confirmed"] += 1
                    break
            else:
                log(f"[{prop}] HARNESS-NONDETERMINISM: histories differ between twin lifetimes {a_i}/{b} at op #{k} but neither differs from a fresh process")
                cross_stats["unexplained"] = cross_stats.get("unexplained", 0) + 1

    # ---------------- aggregate
    flat = [(L, j, lifetimes[L]["segments"][j], r) for L, rs in enumerate(results) for j, r in enumerate(rs) if r is not None]
    okr = [x for x in flat if x[3].get("status") == "ok"]
    timeouts = [x for x in flat if x[3].get("status") == "timeout"]
    herr = [x for x in flat if x[3].get("status") not in ("ok", "timeout")]
    known = load_known()
    for x in okr:
        ev = effective_violation(prop, m, x[3], known)
        if ev is not None and not x[3].get("violation"):
            x[3]["violation"] = ev
    viol = [x for x in okr if x[3].get("violation")]
    cov = aggregate(m, okr)
    exit_code = 0
    lines = []
    new_classes = {}
    known_hits = {}
    for L, j, plan, r in okr:
        for sv in r.get("soft", []):
            k = match_known(prop, m.violation_class(sv), known)
            if k is not None:
                known_hits.setdefault(canon(m.violation_class(sv)), [k, 0, plan["seed"], sv])[1] += 1
    for L, j, plan, r in viol:
        vc = m.violation_class(r["violation"])
        k = match_known(prop, vc, known)
        key = canon(vc)
        if k is not None:
            known_hits.setdefault(key, [k, 0, plan["seed"], r["violation"]])[1] += 1
        else:
            new_classes.setdefault(key, []).append((L, j))
    for key, (k, cnt, sd, kv) in sorted(known_hits.items()):
        lines.append(f"KNOWN-FINDING: property={prop} {k.get('what', key)} (met {cnt} times in this run, e.g. history seed {sd})")
    harness_problem = None
    replay_paths = []
    for key, where in sorted(new_classes.items(), key=lambda kv: kv[1][0])[:4]:
        # Object addresses are the one ambient input that is not behind a seam (CPython's allocator is not
        # reproducible from run to run here, even with ASLR off): a failure that depends on id() reuse
        # reproduces only with some probability. Deterministic failures reproduce at the first attempt;
        # for the others up to 3 attempts and up to 3 histories of the class are tried.
        conf = cj = cv = lt = tbl = None
        attempts = 0
        for (L, j) in where[:3]:
            vc = m.violation_class(results[L][j]["violation"])
            lt = results[L][j].get("cross_plan") or freeze(lifetimes[L], results[L], j)
            log(f"[{prop}] violation class {key} in {len(where)} histories; confirming lifetime {L} segment {j} ({len(lt['segments'])} segments) in a fresh node")
            tbl = tables.get(lt["env"])
            loose = None
            for _try in range(3):
                attempts += 1
                conf = run_lifetime(prop, lt, repo, tier, table=tbl)
                cj, cv = first_violation(m, conf)
                if cv is not None and m.violation_class(cv) == vc:
                    break
                if cv is not None and (loose is None or (m.violation_class(cv)[:2] == vc[:2] and m.violation_class(loose[2])[:2] != vc[:2])):
                    loose = (conf, cj, cv)  # prefer the same oracle on the same kind of op; else any violation
            if cv is not None and m.violation_class(cv) == vc:
                break
            if loose is not None:
                # same oracle, same kind of operation, but another stale value / another history of the
                # prefix: what an address-dependent failure looks like when it is run again
                conf, cj, cv = loose
                vc = m.violation_class(cv)
                attempts = max(attempts, 2)
                break
        if cv is None or m.violation_class(cv) != vc:
            harness_problem = f"violation class {key} did not reproduce in a fresh node in {attempts} attempts (last: {canon(m.violation_class(cv)) if cv else None})"
            log("HARNESS-NONDETERMINISM:", harness_problem)
            continue
        address_sensitive = attempts > 1
        lt["segments"] = lt["segments"][: cj + 1]
        small, used = lt, 0
        if not a.no_shrink and not address_sensitive:
            small, used = shrink_lifetime(prop, m, lt, vc, repo, tier, table=tbl)
        final = run_lifetime(prop, small, repo, tier, table=tbl)
        fj, fv = first_violation(m, final)
        if fv is None or m.violation_class(fv) != vc:
            small, final, fj, fv = lt, conf, cj, cv
        os.makedirs(os.path.join(VERIF, "replays"), exist_ok=True)
        path = os.path.join(VERIF, "replays", f"{prop}-{lifetimes[L]['seed']}-{j}.json")
        with open(path, "w") as f:
            json.dump({"property": prop, "verif_seed": seed, "tier": tier, "reference_table": tbl, "lifetime_index": L, "segment_index": j, "vclass": vc, "violation": fv,
                       "digests": [r.get("digest") for r in final if r is not None], "lifetime": small,
                       "original": {"segments": len(lt["segments"]), "ops": sum(len(s["ops"]) for s in lt["segments"])},
                       "minimised": {"segments": len(small["segments"]), "ops": sum(len(s["ops"]) for s in small["segments"])},
                       "shrink_tests": used, "describe": [m.describe(s) for s in small["segments"]], "histories_with_this_class": len(where),
                       "address_sensitive": address_sensitive, "confirm_attempts": attempts}, f, indent=1)
        rc = replay(prop, m, path, repo, quiet=True)
        if rc != 1:
            harness_problem = f"replay file {path} did not reproduce (rc={rc})"
            log("HARNESS-NONDETERMINISM:", harness_problem)
            continue
        replay_paths.append(path)
        lines.append(f"VIOLATION property={prop} replay={path}")
        exit_code = 1
    if len(new_classes) > 4:
        log(f"[{prop}] {len(new_classes) - 4} further violation classes not minimised: {list(new_classes)[4:8]}")

    evaluated = len(okr)
    tfrac = len(timeouts) / max(1, len(flat))
    if harness_problem and exit_code == 0:
        exit_code = 2
    if evaluated == 0 or tfrac > 0.05 or len(herr) > max(2, 0.01 * len(flat)):
        log(f"[{prop}] harness problem: evaluated={evaluated} timeouts={len(timeouts)} harness_errors={len(herr)}")
        for x in herr[:3]:
            log("   ", json.dumps(x[3])[:2500])
        if exit_code == 0:
            exit_code = 2
    if fresh["mismatch"]:
        log(f"[{prop}] fork/fresh cross-check mismatch: {fresh['mismatch'][:3]}")
        if exit_code == 0:
            exit_code = 2
    if cross_stats.get("unexplained") and exit_code == 0:
        exit_code = 2

    forks = sum(max((r.get("node", {}).get("forks", 0) for r in rs if r), default=0) for rs in results)
    cov.update({
        "evaluations": evaluated,
        "lifetimes": sum(1 for rs in results if any(r is not None for r in rs)),
        "histories_generated": nseg,
        "histories_not_run_budget": nseg - len(flat),
        "timeouts": len(timeouts),
        "harness_errors": len(herr),
        "runs_per_hour": int(evaluated / max(wall, 1e-6) * 3600),
        "steps_per_hour": int(cov.get("steps", 0) / max(wall, 1e-6) * 3600),
        "workers": a.workers,
        "pristine_forks": forks + tables.forks,
        "reference_table_environments": len(tables.tables),
        "canary_pool": len(canaries or []),
        "fork_equals_fresh_crosschecks": fresh["checked"],
        "fork_equals_fresh_mismatches": len(fresh["mismatch"]),
        "cross_lifetime": cross_stats,
        "violating_histories": len(viol),
        "new_violation_classes": len(new_classes),
        "known_finding_hits": sum(v[1] for v in known_hits.values()),
        "replays": replay_paths,
        "components": getattr(m, "COMPONENTS", {}),
        "repo": repo,
    })
    if not a.no_evidence:
        ok = write_evidence(prop, tier, seed, cov, time.monotonic() - t_start, sum(len(w) for w in new_classes.values()), getattr(m, "ASSUMPTIONS", []))
        if not ok and exit_code == 0:
            exit_code = 2
    for ln in lines:
        print(ln)
    print(f"[{prop}] {tier}: {evaluated} histories in {cov['lifetimes']} lifetimes, {cov.get('steps', 0)} steps, {cov.get('distinct_nontrivial', 0)} distinct non-trivial, {len(viol)} violating, {len(timeouts)} timeouts, {forks + tables.forks} pristine forks, {wall:.0f}s, exit {exit_code}")
    sys.stdout.flush()
    return exit_code


def aggregate(m, okr):
    steps = 0
    keys = set()
    acc = {}
    states = set()
    sites = {}
    lines = 0
    samples = []
    for L, j, plan, r in okr:
        steps += r.get("steps", 0)
        nt, key = m.nontrivial_key(plan, r)
        if nt:
            keys.add(key)
        st = r.get("stats", {})
        for src, v in st.items():
            if isinstance(v, dict):
                dst = acc.setdefault(src, {})
                for k, x in v.items():
                    if isinstance(x, (int, float)):
                        dst[k] = dst.get(k, 0) + x
        a = acc.setdefault("arms", {})
        a[st.get("arm", "?")] = a.get(st.get("arm", "?"), 0) + 1
        states.update(st.get("states", []))
        for s in st.get("fired_sites", []):
            sites[s] = sites.get(s, 0) + 1
        lines += st.get("lines", 0)
        if len(samples) < 2 and nt and len(plan["ops"]) <= 25:
            samples.append({"seed": plan["seed"], "lifetime": L, "segment": j, "cfg": plan["cfg"], "history": m.describe(plan)})
    if not samples and okr:
        L, j, plan, r = okr[0]
        samples.append({"seed": plan["seed"], "lifetime": L, "segment": j, "cfg": plan["cfg"], "history": m.describe(plan)})
    out = {
        "steps": steps,
        "simulated_time": f"{steps} logical steps ({lines} counted library source lines); the system has no clock, so simulated time is the step count",
        "distinct_nontrivial": len(keys), "rule": getattr(m, "RULE", ""),
        "distinct_abstract_states": len(states),
        "fault_sites_distinct": len(sites), "fault_sites_top": sorted(sites.items(), key=lambda kv: -kv[1])[:12],
        "samples": samples,
    }
    for k, v in acc.items():
        out[k] = v
    return out


def replay(prop, m, path, repo, quiet=False):
    rp = json.load(open(path))
    lt = rp["lifetime"]
    # the batch's reference table travels with the file so that the node is driven exactly as it was
    # (address-dependent failures need that); VERIF_FRESH_REFS=1 forks fresh references instead, which
    # is what one wants when replaying an old file on a changed tree
    tbl = None if os.environ.get("VERIF_FRESH_REFS") else rp.get("reference_table")
    res = None
    for attempt in range(1, 6 if rp.get("address_sensitive") else 2):
        res = run_lifetime(prop, lt, repo, rp.get("tier", "thorough"), table=tbl)
        _j, _v = first_violation(m, res)
        if _v and (m.violation_class(_v) == rp["vclass"] or rp.get("address_sensitive")):
            break
    if rp.get("address_sensitive") and not quiet:
        print(f"  (this failure depends on object addresses, which no seam controls; attempt {attempt} of at most 5)")
    if any(r is not None and r.get("status") not in ("ok",) for r in res):
        if not quiet:
            log("replay: harness error", [r for r in res if r is not None and r.get("status") != "ok"][:1])
        return 2
    j, v = first_violation(m, res)
    if not quiet:
        for si, seg in enumerate(lt["segments"]):
            print(f"  -- history {si} (seed {seg['seed']}, arm {seg['cfg'].get('arm')})")
            for ln in m.describe(seg):
                print("     ", ln)
    if v and (m.violation_class(v) == rp["vclass"] or rp.get("address_sensitive")):
        same = [r.get("digest") for r in res if r is not None] == rp.get("digests")
        if not quiet:
            print("  violation:", json.dumps({k: v[k] for k in v if k not in ("before", "after", "history_fp", "reference_fp")}))
            print(f"  digests {'identical to the recorded run' if same else 'differ from the recorded run (tree changed since the file was written?)'}")
            print(f"VIOLATION property={prop} replay={path}")
        return 1
    if v:
        if not quiet:
            print(f"replay of {path}: a different violation appeared: {canon(m.violation_class(v))}")
            print(f"VIOLATION property={prop} replay={path}")
        return 1
    if not quiet:
        print(f"replay of {path}: violation did not reappear")
    return 0


if __name__ == "__main__":
    sys.exit(main())
