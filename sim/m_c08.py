"""C08 — binding parameters is specialisation: bind-history machine (DESIGN §4).

A history owns a few unbound (parameterised) functions and binds them again and again, to
the same and to other values, in alternation, with rejected binds, cache flushes, collections
and (thorough) interrupts injected inside bind().  Oracles, at every bind:
  B1  (generated functions) the bound function's exhaustive truth table equals the value of the
      unbound program, evaluated by plain Python on ints/bools/tuples, with the parameters set to v
  B2  the bound function's truth table equals that of the independently specialised source
      (harness-side literal substitution) compiled the ordinary way
  B3  the unbound object (its AST, its parameter names) and the callees given as defs are unaltered
  B4  the same bind gives the same result wherever in the history it is made, and the same as
      binding a freshly created unbound object once (late re-execution)
B1 and B2 arbitrate each other: a difference is charged to bind only if the bound table differs
from the specialised one AND (where there is a Python-level value) from the Python one; tables
that agree with each other but not with Python are a front-end matter (C01), counted, not flagged.
"""
import ast
import os
import re

import progs
from core import canon, digest, rng_for, wchoice
from m_c10 import Estimator, KEEP, STATIC_LINES, closure, gen_value, norm_closure, to_py  # noqa: F401

PROP = "C08"
SEGMENTS = {"quick": 40, "thorough": 100}
HASHSEEDS = {"quick": [0, 1], "thorough": [0, 1, 2, 3, 4, 5, 6, 7]}
CACHES = {"quick": [8, 1000], "thorough": ["off", 8, 64, 1000]}
MAX_TABLE_BITS = 8

# ------------------------------------------------------------------ the generated family (G)

CALLEES = [
    ("neg", "def neg(a: bool) -> bool:\n    return not a\n", ["bool"], "bool"),
    ("both", "def both(a: bool, b: bool) -> bool:\n    return a and b\n", ["bool", "bool"], "bool"),
    ("isz", "def isz(a: Qint[2]) -> bool:\n    return a == 0\n", ["Qint[2]"], "bool"),
]


def width(t):
    m = re.match(r"^Qint\[(\d+)\]$", t)
    return int(m.group(1)) if m else None


def _bx(r, bools, ints, depth):
    """boolean expression over named bools / (name, width) ints; no subtraction, no overflow"""
    if depth <= 0 or r.random() < 0.25:
        if bools and (not ints or r.random() < 0.6):
            return r.choice(bools)
        if ints:
            a = r.choice(ints)
            return f"({a[0]} {r.choice(['==', '!=', '<', '>', '<=', '>='])} {r.randrange(2 ** a[1])})"
        return r.choice(["True", "False"])
    k = r.randrange(7)
    if k == 0:
        return f"(not {_bx(r, bools, ints, depth - 1)})"
    if k in (1, 2):
        return f"({_bx(r, bools, ints, depth - 1)} {r.choice(['and', 'or'])} {_bx(r, bools, ints, depth - 1)})"
    if k == 3:
        return f"({_bx(r, bools, ints, depth - 1)} ^ {_bx(r, bools, ints, depth - 1)})"
    if k in (4, 5) and ints:
        a = r.choice(ints)
        same = [i for i in ints if i[1] == a[1]]
        b = r.choice(same)
        return f"({a[0]} {r.choice(['==', '!=', '<', '>'])} {b[0]})"
    return f"({_bx(r, bools, ints, depth - 1)} if {_bx(r, bools, ints, depth - 1)} else {_bx(r, bools, ints, depth - 1)})"


def _ix(r, bools, ints, w, depth):
    same = [i for i in ints if i[1] == w]
    if depth <= 0 or r.random() < 0.3:
        if same and r.random() < 0.85:
            return r.choice(same)[0]
        return str(r.randrange(2 ** w))
    k = r.randrange(4)
    if k in (0, 1):
        return f"({_ix(r, bools, ints, w, depth - 1)} {r.choice(['^', '&', '|'])} {_ix(r, bools, ints, w, depth - 1)})"
    if k == 2:
        return f"({_ix(r, bools, ints, w, depth - 1)} if {_bx(r, bools, ints, depth - 1)} else {_ix(r, bools, ints, w, depth - 1)})"
    if same:
        return f"({r.choice(same)[0]} + 1)"
    return str(r.randrange(2 ** w))


def gen_g(r, name):
    """gen_g0, and in a sixth of the cases the LAST argument of the signature -- when it is a parameter -- gets a default
    value (a legal Python signature; bind must still use the value it is given, whatever its truth value)"""
    src, params, args, ret, t, defs = gen_g0(r, name)
    if r.random() < 0.17:
        try:
            tr = ast.parse(src)
            fd = tr.body[0]
            last = fd.args.args[-1]
            ptypes = dict(params)
            if last.arg in ptypes and not fd.args.defaults:
                dv = gen_value08(ptypes[last.arg], r)
                if r.random() < 0.5:
                    dv = {"bool": True}.get(ptypes[last.arg], dv)  # a truthy default invites "falsy means missing"
                fd.args.defaults = [literal(dv)]
                src = ast.unparse(ast.fix_missing_locations(tr)) + "\n"
                t = t + "+default"
        except Exception:
            pass
    return src, params, args, ret, t, defs


def gen_g0(r, name):
    """(src, params [(name, type)], args [(name, type)], ret, template, defs)"""
    t = wchoice(r, [("mix", 5), ("loop_sum", 1), ("bool_list", 1.2), ("lookup", 1), ("tuple", 1), ("const_index", 0.5), ("range", 0.4), ("with_def", 1.5), ("ifstmt", 1), ("list_tuples", 0.5),
                    ("builtins", 1.5), ("two_lists", 0.8), ("inner_def", 1.2), ("minmax", 0.6),
                    ("unpack", 0.8), ("enum_loop", 0.8), ("forward", 0.8), ("double_index", 0.6), ("augassign", 0.6), ("multi_assign", 1.0),
                    ("reassign", 0.8), ("iterate_twice", 0.8), ("branch_const", 0.8), ("prefix_names", 0.6), ("sum_builtin", 1.2), ("param_mutated", 1.4), ("other_types", 2.0), ("tuple_return", 1.0), ("arith2", 1.6)])
    defs = []
    if t == "mix":
        # 1-4 parameters interleaved anywhere in the signature with 1-3 real arguments
        npar, narg = r.randint(1, 4), r.randint(1, 3)
        types = ["bool", "bool", "Qint[2]", "Qint[3]"]
        sig, params, args, bools, ints, bits = [], [], [], [], [], 0
        slots = ["p"] * npar + ["a"] * narg
        r.shuffle(slots)
        pn = iter(["p", "q", "k", "m"])
        an = iter(["a", "b", "c"])
        same_t = r.choice(types)
        for sl in slots:
            ty = same_t if (sl == "p" and r.random() < 0.6) else r.choice(types)
            if sl == "a" and bits + (width(ty) or 1) > 7:
                ty = "bool"
            if sl == "p":
                n = next(pn)
                params.append((n, ty))
                sig.append(f"{n}: Parameter[{ty}]")
            else:
                n = next(an)
                args.append((n, ty))
                bits += width(ty) or 1
                sig.append(f"{n}: {ty}")
            (bools.append(n) if ty == "bool" else ints.append((n, width(ty))))
        if ints and r.random() < 0.4:
            w = r.choice(ints)[1]
            ret, body = f"Qint[{w}]", f"    return {_ix(r, bools, ints, w, 2)}\n"
        else:
            ret, body = "bool", f"    return {_bx(r, bools, ints, 3)}\n"
        src = f"def {name}({', '.join(sig)}) -> {ret}:\n{body}"
    elif t == "loop_sum":
        n = r.randint(2, 4)
        params, args, ret = [("p", f"Qlist[Qint[2], {n}]")], [("b", "Qint[4]")], "Qint[4]"
        src = f"def {name}(p: Parameter[Qlist[Qint[2], {n}]], b: Qint[4]) -> Qint[4]:\n    s = Qint4(0)\n    for n in p:\n        s += n\n    return s + b\n"
    elif t == "bool_list":
        n = r.randint(2, 4)
        params, args, ret = [("p", f"Qlist[bool, {n}]")], [("a", "bool")], "bool"
        if r.random() < 0.5:
            src = f"def {name}(p: Parameter[Qlist[bool, {n}]], a: bool) -> bool:\n    r = a\n    for v in p:\n        r = r ^ v\n    return r\n"
        else:
            i, j = r.randrange(n), r.randrange(n)
            src = f"def {name}(a: bool, p: Parameter[Qlist[bool, {n}]]) -> bool:\n    return (p[{i}] and a) or p[{j}]\n"
    elif t == "builtins":
        # any / all / len over a list parameter, mixed with a real argument
        n = r.randint(2, 4)
        params, args, ret = [("p", f"Qlist[bool, {n}]")], [("a", "bool")], "bool"
        form = r.randrange(5)
        body = ["return any(p) and a", "return all(p) or a", "return (any(p) ^ a) or all(p)", "return a if any(p) else not a", "return (len(p) == %d) and (a or any(p))" % n][form]
        sig = [f"p: Parameter[Qlist[bool, {n}]]", "a: bool"]
        if r.random() < 0.5:
            sig.reverse()
        src = f"def {name}({', '.join(sig)}) -> bool:\n    {body}\n"
    elif t == "two_lists":
        n = r.randint(2, 3)
        params, args, ret = [("l", f"Qlist[bool, {n}]"), ("m", f"Qlist[bool, {n}]")], [("a", "bool")], "bool"
        op1, op2 = r.choice(["or", "and", "^"]), r.choice(["^", "or", "and"])
        src = (f"def {name}(l: Parameter[Qlist[bool, {n}]], a: bool, m: Parameter[Qlist[bool, {n}]]) -> bool:\n    r = a\n    for x in l:\n        for y in m:\n"
               f"            r = r {op2} (x {op1} y)\n    return r\n")
    elif t == "minmax":
        n = r.choice([2, 3, 3, 4, 5, 5, 6, 7])  # longer lists too: the rewriting of min / max may depend on the operand count
        params, args, ret = [("p", f"Qlist[Qint[2], {n}]")], [("x", "Qint[2]")], "bool"
        f_ = r.choice(["max", "min"])
        src = f"def {name}(p: Parameter[Qlist[Qint[2], {n}]], x: Qint[2]) -> bool:\n    return x {r.choice(['<', '==', '>='])} {f_}(p)\n"
    elif t == "inner_def":
        pt = r.choice(["bool", "Qint[2]"])
        params, args, ret = [("k", pt)], [("a", "bool"), ("b", "bool")], "bool"
        fn = r.choice(["inc", "neg", "g"])
        use = "k" if pt == "bool" else f"(k == {r.randrange(4)})"
        form = r.randrange(5)
        if form == 0:
            src = (f"def {name}(a: bool, k: Parameter[{pt}], b: bool) -> bool:\n    def {fn}(x: bool, y: bool) -> bool:\n        return (not x) ^ y\n"
                   f"    return {fn}(a, b) ^ {use}\n")
        elif form == 1:
            # the inner function's own argument is NAMED like the outer parameter (and gets another value)
            src = (f"def {name}(a: bool, k: Parameter[{pt}], b: bool) -> bool:\n    def {fn}(k: bool, y: bool) -> bool:\n        return (not k) ^ y\n"
                   f"    return {fn}(a, b) ^ {use}\n")
        elif form == 2:
            # ... or a local of the inner function is
            src = (f"def {name}(a: bool, k: Parameter[{pt}], b: bool) -> bool:\n    def {fn}(x: bool, y: bool) -> bool:\n        k = x and y\n        return k ^ x\n"
                   f"    return {fn}(a, b) ^ {use}\n")
        elif form == 3:
            params, args, ret = [("k", "Qint[2]")], [("x", "Qint[2]")], "Qint[2]"
            src = (f"def {name}(k: Parameter[Qint[2]], x: Qint[2]) -> Qint[2]:\n    def {fn}(k: Qint[2]) -> Qint[2]:\n        return k + 1\n"
                   f"    return {fn}(x) ^ k\n")
        else:
            # the parameter handed to the inner function, whose argument has another name / the same name
            an = r.choice(["y", "k"])
            pt = "bool"
            params = [("k", "bool")]
            src = (f"def {name}(a: bool, k: Parameter[bool], b: bool) -> bool:\n    def {fn}(x: bool, {an}: bool) -> bool:\n        return (not x) ^ {an}\n"
                   f"    return {fn}(a, k) ^ {fn}(b, a)\n")
    elif t == "multi_assign":
        # simultaneous assignment whose right-hand sides read the targets, in a loop over a list parameter or not
        form = r.randrange(4)
        if form == 0:
            params, args, ret = [("k", "Qint[2]")], [("x", "Qint[2]"), ("y", "Qint[2]")], "Qint[2]"
            src = f"def {name}(x: Qint[2], k: Parameter[Qint[2]], y: Qint[2]) -> Qint[2]:\n    x, y = x ^ k, y ^ x\n    return y\n"
        elif form == 1:
            params, args, ret = [("k", "bool")], [("a", "bool"), ("b", "bool")], "bool"
            src = f"def {name}(a: bool, b: bool, k: Parameter[bool]) -> bool:\n    a, b = b, a ^ k\n    return a and not b\n"
        elif form == 2:
            n = r.randint(2, 3)
            params, args, ret = [("ks", f"Qlist[Qint[2], {n}]")], [("x", "Qint[2]"), ("y", "Qint[2]")], "Qint[2]"
            src = (f"def {name}(ks: Parameter[Qlist[Qint[2], {n}]], x: Qint[2], y: Qint[2]) -> Qint[2]:\n    for k in ks:\n"
                   f"        x, y = x ^ k, y ^ x\n    return x ^ y\n")
        else:
            params, args, ret = [("k", "bool"), ("m", "bool")], [("a", "bool"), ("b", "bool")], "bool"
            src = f"def {name}(k: Parameter[bool], a: bool, b: bool, m: Parameter[bool]) -> bool:\n    a, b, c = a ^ k, b ^ a, a and m\n    return (a ^ b) or c\n"
    elif t == "reassign":
        params, args, ret = [("p", "bool"), ("k", "Qint[2]")], [("a", "bool"), ("x", "Qint[2]")], "bool"
        form = r.randrange(3)
        body = ["    q = p\n    return (q and a) ^ (x == k)\n", "    j = k\n    q = p\n    return (x < j) or (q ^ a)\n", "    q = p\n    q = q ^ a\n    return q and (x != k)\n"][form]
        src = f"def {name}(a: bool, p: Parameter[bool], x: Qint[2], k: Parameter[Qint[2]]) -> bool:\n{body}"
    elif t == "param_mutated":
        # a parameter (or a literal-initialised local) is itself re-assigned / augmented in the body -- also inside an unrolled
        # loop -- and LATER decides an `if` statement: whatever the pipeline remembers about the bound value must follow the body.
        # Only bitwise operators, so that plain Python's value is the meaning at every width.
        form = r.randrange(7)
        n = r.randint(2, 4)
        o1, o2 = r.sample(["^", "&", "|"], 2)
        flip = r.choice(["sign ^= True", "sign = not sign", "sign ^= (v > 1)"])
        if form == 0:
            params, args, ret = [("sign", "bool"), ("p", f"Qlist[Qint[2], {n}]")], [("x", "Qint[2]")], "Qint[2]"
            src = (f"def {name}(sign: Parameter[bool], p: Parameter[Qlist[Qint[2], {n}]], x: Qint[2]) -> Qint[2]:\n    s = x\n    for v in p:\n        if sign:\n            s = s {o1} v\n"
                   f"        else:\n            s = s {o2} v\n        {flip}\n    return s\n")
        elif form == 1:
            params, args, ret = [("k", "Qint[2]")], [("a", "Qint[2]")], "Qint[2]"
            c = r.choice(["k > 1", "k == 2", "k != 0", "k < 3"])
            src = f"def {name}(a: Qint[2], k: Parameter[Qint[2]]) -> Qint[2]:\n    k ^= {r.randint(1, 3)}\n    r = a\n    if {c}:\n        r = a {o1} k\n    else:\n        r = a {o2} k\n    return r\n"
        elif form in (2, 3):
            params, args, ret = [("p", f"Qlist[bool, {n}]"), ("q", "bool")], [("a", "bool"), ("b", "bool")], "bool"
            step = "c ^= True" if form == 2 else "c ^= v"
            src = (f"def {name}(p: Parameter[Qlist[bool, {n}]], q: Parameter[bool], a: bool, b: bool) -> bool:\n    r = a\n    c = q\n    for v in p:\n        {step}\n"
                   f"    if c:\n        r = a ^ b\n    else:\n        r = a and b\n    return r\n")
        elif form == 4:
            params, args, ret = [("p", "bool")], [("a", "bool"), ("b", "bool")], "bool"
            src = f"def {name}(p: Parameter[bool], a: bool, b: bool) -> bool:\n    p ^= a\n    r = b\n    if p:\n        r = not b\n    return r\n"
        elif form == 5:
            params, args, ret = [("k", "Qint[2]")], [("x", "Qint[2]")], "Qint[2]"
            src = (f"def {name}(k: Parameter[Qint[2]], x: Qint[2]) -> Qint[2]:\n    c = {r.randint(0, 1)}\n    for i in range({n}):\n        c ^= 1\n    r = x\n    if c == k:\n        r = x ^ 3\n"
                   f"    else:\n        r = x {o1} 1\n    return r\n")
        else:
            params, args, ret = [("p", "bool"), ("q", "bool")], [("a", "bool"), ("b", "bool")], "bool"
            src = (f"def {name}(p: Parameter[bool], a: bool, q: Parameter[bool], b: bool) -> bool:\n    p = not p\n    q ^= p\n    r = b\n    if p:\n        r = a\n    if q:\n        r = r ^ b\n"
                   f"    else:\n        r = r or a\n    return r\n")
    elif t == "other_types":
        # "every supported parameter type": fixed-point, characters, boolean matrices, nested tuples, 8-bit integers.
        # Only comparisons / boolean structure, so that plain Python is the meaning whatever the widths
        form = r.randrange(11)
        cmp_ = r.choice([">", "<", "==", "!=", ">=", "<="])
        mix = r.choice(["({e}) ^ a", "({e}) and a", "({e}) or a", "a if ({e}) else (not a)"])
        if form in (0, 1):
            ft = "Qfixed[2,2]" if form == 0 else "Qfixed[1,2]"
            params, args, ret = [("c", ft), ("d", ft)], [("a", "bool")], "bool"
            src = f"def {name}(c: Parameter[{ft}], a: bool, d: Parameter[{ft}]) -> bool:\n    return {mix.format(e=f'c {cmp_} d')}\n"
        elif form == 2:
            n = r.randint(2, 3)
            i, j = r.sample(range(n), 2)
            params, args, ret = [("c", f"Qlist[Qfixed[2,2], {n}]")], [("a", "bool")], "bool"
            src = f"def {name}(c: Parameter[Qlist[Qfixed[2,2], {n}]], a: bool) -> bool:\n    return {mix.format(e=f'c[{i}] {cmp_} c[{j}]')}\n"
        elif form == 3:
            eq = r.choice(["==", "!="])
            params, args, ret = [("c", "Qchar"), ("d", "Qchar")], [("a", "bool")], "bool"
            src = f"def {name}(c: Parameter[Qchar], d: Parameter[Qchar], a: bool) -> bool:\n    return {mix.format(e=f'c {eq} d')}\n"
        elif form == 4:
            n = r.randint(2, 3)
            params, args, ret = [("c", f"Qlist[Qchar, {n}]"), ("k", "Qchar")], [("a", "bool")], "bool"
            src = f"def {name}(c: Parameter[Qlist[Qchar, {n}]], a: bool, k: Parameter[Qchar]) -> bool:\n    v = a\n    for x in c:\n        v = v ^ (x == k)\n    return v\n"
        elif form == 5:
            rows, cols = r.choice([(2, 2), (2, 3), (3, 2)])
            cells = [(i, j) for i in range(rows) for j in range(cols)]
            (i0, j0), (i1, j1), (i2, j2) = r.sample(cells, 3)
            params, args, ret = [("m", f"Qmatrix[bool, {rows}, {cols}]")], [("a", "bool"), ("b", "bool")], "bool"
            src = f"def {name}(m: Parameter[Qmatrix[bool, {rows}, {cols}]], a: bool, b: bool) -> bool:\n    return (m[{i0}][{j0}] and a) ^ (m[{i1}][{j1}] or b) ^ m[{i2}][{j2}]\n"
        elif form == 6:
            params, args, ret = [("c", "Tuple[Tuple[bool, Qint[2]], bool]")], [("a", "bool"), ("x", "Qint[2]")], "bool"
            src = f"def {name}(x: Qint[2], c: Parameter[Tuple[Tuple[bool, Qint[2]], bool]], a: bool) -> bool:\n    return ((c[0][1] {cmp_} x) ^ c[1]) or (c[0][0] and a)\n"
        elif form == 7:
            params, args, ret = [("c", "Qint[8]")], [("a", "bool"), ("x", "Qint[2]")], "bool"
            src = f"def {name}(c: Parameter[Qint[8]], x: Qint[2], a: bool) -> bool:\n    return {mix.format(e=f'c {cmp_} {r.randrange(256)}')} or (x == 3)\n"
        elif form in (9, 10):
            # a matrix parameter -- square or not -- read at two RUN-TIME indices (rows the Python function
            # cannot index are outside its domain and are not compared)
            rows, cols = r.choice([(2, 2), (2, 3), (2, 4), (3, 2), (3, 3), (3, 4)])
            ct = r.choice(["bool", "Qint[2]"])
            params, args, ret = [("c", f"Qmatrix[{ct}, {rows}, {cols}]")], [("i", "Qint[2]"), ("j", "Qint[2]")], ct
            body = "    return c[i][j]\n" if form == 9 else "    r = i & 1\n    return c[r][j]\n"
            src = f"def {name}(c: Parameter[Qmatrix[{ct}, {rows}, {cols}]], i: Qint[2], j: Qint[2]) -> {ct}:\n{body}"
        else:
            params, args, ret = [("c", "Qchar")], [("a", "Qchar")], "bool"
            src = f"def {name}(c: Parameter[Qchar], a: Qchar) -> bool:\n    return a {r.choice(['==', '!='])} c\n"
    elif t == "tuple_return":
        # parameters handed straight through to return bits, next to expressions that need work qubits: after binding the
        # function has CONSTANT return bits between computed ones (no Python-level decode of tuples: B2, B4, B6 judge)
        exprs = ["c and not a", "a and not b", "(a or b) and c", "a ^ b", "not (b and c)", "a", "not c"]
        k = r.randint(2, 4)
        parts = r.sample(exprs, k - 1) + [r.choice(["p", "not p", "p and q", "p or a", "q"])]
        r.shuffle(parts)
        params, args, ret = [("p", "bool"), ("q", "bool")], [("a", "bool"), ("b", "bool"), ("c", "bool")], "Tuple[" + ", ".join(["bool"] * k) + "]"
        src = f"def {name}(a: bool, p: Parameter[bool], b: bool, c: bool, q: Parameter[bool]) -> {ret}:\n    return ({', '.join(parts)})\n"
    elif t == "iterate_twice":
        n = r.randint(2, 3)
        params, args, ret = [("p", f"Qlist[bool, {n}]")], [("a", "bool"), ("b", "bool")], "bool"
        src = (f"def {name}(p: Parameter[Qlist[bool, {n}]], a: bool, b: bool) -> bool:\n    r = a\n    for v in p:\n        r = r ^ v\n"
               f"    for v in p:\n        r = (r or v) and b\n    return r\n")
    elif t == "branch_const":
        params, args, ret = [("p", "bool"), ("q", "bool")], [("a", "bool"), ("b", "bool")], "bool"
        src = (f"def {name}(p: Parameter[bool], a: bool, q: Parameter[bool], b: bool) -> bool:\n    t = q\n    if a:\n        t = p\n    else:\n        t = not p\n"
               f"    return (t ^ b) or (q and a)\n")
    elif t == "prefix_names":
        params, args, ret = [("p", "bool"), ("p1", "bool"), ("p10", "Qint[2]")], [("a", "bool"), ("x", "Qint[2]")], "bool"
        src = f"def {name}(p1: Parameter[bool], a: bool, p: Parameter[bool], x: Qint[2], p10: Parameter[Qint[2]]) -> bool:\n    return ((p and a) ^ p1) or (x == p10)\n"
    elif t == "sum_builtin":
        # sum / len / min / max of a Qint list parameter together with other uses of the same parameter
        # every value has the width of the result, so that wrapping at each addition equals cropping once
        # at the end (plain Python's value is the meaning only where no NARROWER intermediate overflows)
        n = r.randint(2, 3)
        params, args, ret = [("p", f"Qlist[Qint[4], {n}]")], [("x", "Qint[4]")], "Qint[4]"
        i = r.randrange(n)
        form = r.randrange(5)
        body = [f"    return sum(p) + p[{i}] + x\n",
                f"    s = sum(p)\n    for v in p:\n        s = s + v\n    return s + x\n",
                f"    return (sum(p) + len(p)) ^ x\n",
                f"    return p[{i}] + sum(p) + x\n",
                f"    return sum(p) + sum(p) + x\n"][form]
        sig = [f"p: Parameter[Qlist[Qint[4], {n}]]", "x: Qint[4]"]
        if r.random() < 0.5:
            sig.reverse()
        src = f"def {name}({', '.join(sig)}) -> Qint[4]:\n{body}"
    elif t == "unpack":
        params, args, ret = [("p", "Tuple[bool, bool]")], [("a", "bool")], "bool"
        src = f"def {name}(p: Parameter[Tuple[bool, bool]], a: bool) -> bool:\n    x, y = p\n    return (x and a) ^ y\n"
    elif t == "enum_loop":
        n = r.randint(2, 4)
        params, args, ret = [("p", f"Qlist[bool, {n}]")], [("a", "bool"), ("b", "bool")], "bool"
        src = (f"def {name}(a: bool, p: Parameter[Qlist[bool, {n}]], b: bool) -> bool:\n    r = b\n    for i in range(len(p)):\n"
               f"        r = r ^ (p[i] and a)\n    return r\n")
    elif t == "forward":
        # the parameter is handed on to a callee given via defs=
        defs = ["both"]
        params, args, ret = [("k", "bool")], [("a", "bool")], "bool"
        sig = ["a: bool", "k: Parameter[bool]"]
        if r.random() < 0.5:
            sig.reverse()
        src = f"def {name}({', '.join(sig)}) -> bool:\n    return both({r.choice(['a, k', 'k, a'])}) ^ (not a)\n"
    elif t == "double_index":
        params, args, ret = [("p", "List[Tuple[bool, bool]]")], [("a", "bool")], "bool"
        i, j = r.randrange(2), r.randrange(2)
        src = f"def {name}(p: Parameter[List[Tuple[bool, bool]]], a: bool) -> bool:\n    return p[{i}][{j}] ^ a\n"
    elif t == "augassign":
        params, args, ret = [("p", "Qint[2]")], [("x", "Qint[2]"), ("a", "bool")], "Qint[2]"
        op_ = r.choice(["^=", "&=", "|="])
        src = f"def {name}(x: Qint[2], p: Parameter[Qint[2]], a: bool) -> Qint[2]:\n    s = x\n    if a:\n        s {op_} p\n    return s\n"
    elif t == "arith2":
        # operators the other templates do not reach -- multiplication, wrapping subtraction, scalar min / max, tuple
        # equality, masks written in hex -- each checked by hand, parameters kept as typed arguments, against plain Python
        # on its whole domain before it was admitted (DESIGN 10.22); no comparison after a subtraction (negative in Python)
        f_ = r.randrange(8)
        if f_ == 0:
            params, args, ret = [("p", "Qint[2]")], [("x", "Qint[2]")], "Qint[4]"
            src = f"def {name}(x: Qint[2], p: Parameter[Qint[2]]) -> Qint[4]:\n    return {r.choice(['x * p', 'p * x'])}\n"
        elif f_ == 1:
            params, args, ret = [("p", "Qint[2]"), ("q", "Qint[2]")], [("x", "Qint[2]")], "Qint[4]"
            src = f"def {name}(p: Parameter[Qint[2]], x: Qint[2], q: Parameter[Qint[2]]) -> Qint[4]:\n    return {r.choice(['(x * p) + q', '(p * q) + x', 'p * q'])}\n"
        elif f_ == 2:
            w = r.choice([2, 3])
            params, args, ret = [("p", f"Qint[{w}]")], [("x", f"Qint[{w}]")], f"Qint[{w}]"
            src = f"def {name}(x: Qint[{w}], p: Parameter[Qint[{w}]]) -> Qint[{w}]:\n    return {r.choice(['x - p', 'p - x', '(x - p) ^ p'])}\n"
        elif f_ == 3:
            w = r.choice([2, 3])
            params, args, ret = [("p", f"Qint[{w}]")], [("x", f"Qint[{w}]")], f"Qint[{w}]"
            src = f"def {name}(p: Parameter[Qint[{w}]], x: Qint[{w}]) -> Qint[{w}]:\n    return {r.choice(['max(x, p)', 'min(x, p)', 'max(p, x)', 'max(x, p) - min(x, p)'])}\n"
        elif f_ == 4:
            params, args, ret = [("p", "Qint[2]"), ("q", "Qint[2]")], [("x", "Qint[2]")], "Qint[2]"
            src = f"def {name}(x: Qint[2], p: Parameter[Qint[2]], q: Parameter[Qint[2]]) -> Qint[2]:\n    return {r.choice(['min(x, p, q)', 'max(x, p, q)', 'max(min(x, p), q)', 'min(p, q) ^ x'])}\n"
        elif f_ == 5:
            params, args, ret = [("p", "Qint[4]")], [("x", "Qint[4]")], "Qint[4]"
            src = f"def {name}(x: Qint[4], p: Parameter[Qint[4]]) -> Qint[4]:\n    return {r.choice(['(x & 0xA) | (p & 0x5)', '(x | 0x3) & p', '(p ^ 0xF) & x'])}\n"
        elif f_ == 6:
            params, args, ret = [("p", "Tuple[bool, bool]")], [("a", "bool"), ("b", "bool")], "bool"
            src = f"def {name}(a: bool, p: Parameter[Tuple[bool, bool]], b: bool) -> bool:\n    return {r.choice(['(a, b) == p', 'not ((a, b) == p)', 'p == (a, b)', '(a, not b) == p'])}\n"
        else:
            params, args, ret = [("p", "Qint[2]"), ("q", "bool")], [("x", "Qint[2]"), ("a", "bool")], "bool"
            src = f"def {name}(x: Qint[2], q: Parameter[bool], a: bool, p: Parameter[Qint[2]]) -> bool:\n    return {r.choice(['((x * p) > 3) ^ q', '(max(x, p) == x) and (a or q)', '(min(x, p) == p) ^ (a and q)'])}\n"
    elif t == "lookup":
        n = r.choice([4, 4, 3, 5, 2])
        params, args, ret = [("p", f"Qlist[Qint[2], {n}]")], [("x", "Qint[2]")], "Qint[2]"
        src = f"def {name}(p: Parameter[Qlist[Qint[2], {n}]], x: Qint[2]) -> Qint[2]:\n    return p[x]\n"
    elif t == "tuple":
        params, args, ret = [("p", "Tuple[bool, Qint[2]]")], [("x", "Qint[2]")], "Qint[2]"
        src = f"def {name}(x: Qint[2], p: Parameter[Tuple[bool, Qint[2]]]) -> Qint[2]:\n    return (x ^ p[1]) if p[0] else x\n"
    elif t == "const_index":
        params, args, ret = [("p", "Qint[2]")], [("a", "Tuple[bool, bool, bool, bool]")], "bool"
        src = f"def {name}(a: Tuple[bool, bool, bool, bool], p: Parameter[Qint[2]]) -> bool:\n    return a[p]\n"
    elif t == "range":
        params, args, ret = [("p", "Qint[2]")], [("x", "Qint[3]")], "Qint[3]"
        src = f"def {name}(x: Qint[3], p: Parameter[Qint[2]]) -> Qint[3]:\n    s = x\n    for i in range(p):\n        s = s ^ 1\n    return s\n"
    elif t == "with_def":
        cn, csrc, cargs, cret = r.choice(CALLEES)
        defs = [cn]
        pt = r.choice(["bool", "Qint[2]"])
        args = [(f"a{i}", ty) for i, ty in enumerate(cargs)]
        params, ret = [("k", pt)], "bool"
        call = f"{cn}({', '.join(a for a, _ in args)})"
        body = f"    return {call} ^ k\n" if pt == "bool" else f"    return {call} ^ (k == {r.randrange(4)})\n"
        sig = [f"{a}: {ty}" for a, ty in args]
        sig.insert(r.randrange(len(sig) + 1), f"k: Parameter[{pt}]")
        src = f"def {name}({', '.join(sig)}) -> bool:\n{body}"
    elif t == "ifstmt":
        params, args, ret = [("p", "bool"), ("q", "bool")], [("a", "bool"), ("b", "bool")], "bool"
        src = f"def {name}(a: bool, p: Parameter[bool], b: bool, q: Parameter[bool]) -> bool:\n    r = a\n    if p:\n        r = a ^ b\n    else:\n        r = b and q\n    return r\n"
    else:  # list_tuples
        params, args, ret = [("io_list", "List[Tuple[bool, bool, bool]]")], [("f", "bool")], "bool"
        src = f"def {name}(io_list: Parameter[List[Tuple[bool, bool, bool]]], f: bool) -> bool:\n    v = True\n    for io in io_list:\n        v = v and (io[0] or io[1]) == io[2]\n    return v ^ f\n"
    return src, params, args, ret, t, defs


# ------------------------------------------------------------------ corpus-derived family (D)

_SIMPLE_T = re.compile(r"^(bool|Qint\[\d+\]|Qint\d+|Tuple\[.*\]|Qlist\[.*\])$")
D_POOL = [p for p in progs.OK if 1 <= p["nargs"] <= 4 and p["in_bits"] <= 8 and p["t"] <= 0.05 and p.get("out_bits", 1) <= 8 and "**" not in p["src"] and all(t and _SIMPLE_T.match(t) and "Qfixed" not in t and "Qchar" not in t and "Qmatrix" not in t for _, t in p["argsig"])]


def _stored_names(fd):
    out = set()
    for n in ast.walk(fd):
        if isinstance(n, ast.Name) and isinstance(n.ctx, (ast.Store, ast.Del)):
            out.add(n.id)
        elif isinstance(n, ast.AugAssign) and isinstance(n.target, ast.Name):
            out.add(n.target.id)
    return out


def gen_d(r, name):
    for _ in range(8):
        p = r.choice(D_POOL)
        psrc, tag = p["src"], "corpus:" + p["id"]
        if r.random() < 0.35:
            # a near-twin of the corpus program (one AST mutation, signature types kept): B2-B4 and B6 need no
            # Python-level meaning, so any mutant is admissible; one the front end refuses is refused by hand too (B0)
            m = progs.mutate(psrc, p, r, exclude=("arg_retype", "ret_retype", "arg_swap"))
            if m is not None:
                psrc, tag = m[0], "corpusmut:" + m[2] + ":" + p["id"]
        try:
            t = ast.parse(psrc)
        except SyntaxError:
            continue
        fd = t.body[0]
        stored = _stored_names(fd)
        cands = [a for a in fd.args.args if a.arg not in stored]
        if not cands:
            continue
        k = r.randint(1, min(len(cands), 2))
        chosen = r.sample(cands, k)
        params = []
        for a in chosen:
            ty = ast.unparse(a.annotation)
            params.append((a.arg, ty))
            a.annotation = ast.Subscript(value=ast.Name(id="Parameter", ctx=ast.Load()), slice=a.annotation, ctx=ast.Load())
        fd.name = name
        args = [(a.arg, ast.unparse(a.annotation)) for a in fd.args.args if a not in chosen]
        if not args and r.random() < 0.7:
            continue
        src = ast.unparse(ast.fix_missing_locations(t)) + "\n"
        return src, params, args, (ast.unparse(fd.returns) if fd.returns else "bool"), tag, []
    return gen_g(r, name)


# ------------------------------------------------------------------ harness-side specialisation and Python-level value


QCHARS = ["a", "b", "z", "A", "0", " ", "~"]
QFIXED_ORDER = [(1, 2), (1, 3), (1, 4), (1, 6), (2, 2), (2, 3), (2, 4), (2, 6), (3, 3), (3, 4), (3, 6), (4, 4), (4, 6)]  # the library's inference order


def fixed_of(t):
    m = re.match(r"^Qfixed\[(\d+),\s*(\d+)\]$", t.strip())
    return (int(m.group(1)), int(m.group(2))) if m else None


def gen_value08(t, r):
    """gen_value plus the parameter types only C08 uses (values exactly representable in the declared type)"""
    from m_c10 import _split_top

    t = t.strip()
    fx = fixed_of(t)
    if fx:
        return r.randrange(2 ** (fx[0] + fx[1])) / (2 ** fx[1])
    if t == "Qchar":
        return r.choice(QCHARS)
    m = re.match(r"^Qmatrix\[(.*)\]$", t)
    if m:
        et, rows, cols = _split_top(m.group(1))
        return [[gen_value08(et, r) for _ in range(int(cols))] for _ in range(int(rows))]
    m = re.match(r"^Tuple\[(.*)\]$", t)
    if m:
        return [gen_value08(x, r) for x in _split_top(m.group(1))]
    m = re.match(r"^Qlist\[(.*)\]$", t)
    if m:
        parts = _split_top(m.group(1))
        if len(parts) == 2 and parts[1].strip().isdigit():
            return [gen_value08(parts[0], r) for _ in range(int(parts[1]))]
    return gen_value(t, r)


def inferred_fixed(v):
    """the fixed-point type the front end infers for a float literal (first in its order that holds the value within 0.05)"""
    for i, f in QFIXED_ORDER:
        if v < 2 ** i and abs(v * 2 ** f - round(v * 2 ** f)) / 2 ** f < 0.05:
            return (i, f)
    return None


def literal(v):
    if isinstance(v, list):
        return ast.Tuple(elts=[literal(x) for x in v], ctx=ast.Load())
    return ast.Constant(value=v)


class _Subst(ast.NodeTransformer):
    def __init__(self, vals):
        self.vals = vals

    def visit_Name(self, n):
        if isinstance(n.ctx, ast.Load) and n.id in self.vals:
            return ast.copy_location(literal(self.vals[n.id]), n)
        return n


def _drop_params(fd, values):
    """remove the arguments named in `values` from a FunctionDef together with THEIR default values"""
    args = fd.args.args
    nd = len(fd.args.defaults)
    dflt = [None] * (len(args) - nd) + list(fd.args.defaults)
    keep = [(a, d) for a, d in zip(args, dflt) if a.arg not in values]
    # a default may only follow defaults: drop the defaults of kept arguments that precede a kept argument without one
    last_plain = max([i for i, (_, d) in enumerate(keep) if d is None], default=-1)
    fd.args.args = [a for a, _ in keep]
    fd.args.defaults = [d for i, (_, d) in enumerate(keep) if d is not None and i > last_plain]


def specialise(src, values):
    """independent of the library: drop the Parameter[...] arguments, put literals where they were read"""
    t = ast.parse(src)
    fd = t.body[0]
    _drop_params(fd, values)
    fd.body = [_Subst(values).visit(st) for st in fd.body]
    return ast.unparse(ast.fix_missing_locations(t)) + "\n"


def injected(src, values):
    """the prepended-assignment form, built by the harness: what bind is documented to do
    (drop the Parameter[...] arguments, assign the values first), compiled the ordinary way"""
    t = ast.parse(src)
    fd = t.body[0]
    names = [a.arg for a in fd.args.args if a.arg in values]
    _drop_params(fd, values)
    pre = [ast.Assign(targets=[ast.Name(id=n, ctx=ast.Store())], value=literal(values[n])) for n in names]
    fd.body = pre + fd.body
    return ast.unparse(ast.fix_missing_locations(t)) + "\n"


BUILTIN_QINT = (2, 3, 4, 5, 6, 7, 8, 12, 16)


def narrower_than_declared(params, values):
    """which kinds of leaf values get a type other than the declared one when written as a bare literal (the F-C08-1 /
    F-C08-2 situation): {"qint"} a Qint value needing fewer bits than declared, {"qfixed"} a float whose inferred
    fixed-point type is not the declared one; empty set = none"""
    from m_c10 import _split_top

    def leaves(ty, v):
        ty = ty.strip()
        w = width(ty)
        if w is not None:
            if isinstance(v, int) and not isinstance(v, bool):
                yield "qint", w, v
            return
        fx = fixed_of(ty)
        if fx is not None:
            if isinstance(v, float):
                yield "qfixed", fx, v
            return
        m = re.match(r"^(Tuple|Qlist|List|Qmatrix)\[(.*)\]$", ty)
        if not m or not isinstance(v, list):
            return
        parts = _split_top(m.group(2))
        if m.group(1) == "Tuple":
            elts = parts
        elif m.group(1) == "Qmatrix":
            elts = [f"Qlist[{parts[0]}, {parts[2]}]"] * len(v)
        else:
            elts = [parts[0]] * len(v)
        for et, ev in zip(elts, v):
            yield from leaves(et, ev)

    out = set()
    for n, t in params:
        for kind, w, v in leaves(t, values.get(n)):
            if kind == "qint" and max(2, int(v).bit_length()) < w:
                out.add("qint")
            if kind == "qfixed" and inferred_fixed(v) != w:
                out.add("qfixed")
    return out


def injected_typed(src, values, params):
    """the prepended-assignment form with scalar Qint parameters written as typed constants
    (p = Qint3(2)); None when some parameter cannot be written that way"""
    t = ast.parse(src)
    fd = t.body[0]
    ptypes = dict(params)
    pre = []
    for a in fd.args.args:
        if a.arg not in values:
            continue
        w = width(ptypes.get(a.arg, ""))
        v = values[a.arg]
        if w is not None:
            if w not in BUILTIN_QINT or not isinstance(v, int) or isinstance(v, bool):
                return None
            val = ast.Call(func=ast.Name(id=f"Qint{w}", ctx=ast.Load()), args=[ast.Constant(value=v)], keywords=[])
        elif fixed_of(ptypes.get(a.arg, "")) is not None:
            i_, f_ = fixed_of(ptypes[a.arg])
            if (i_, f_) not in QFIXED_ORDER or not isinstance(v, float):
                return None
            val = ast.Call(func=ast.Name(id=f"Qfixed{i_}_{f_}", ctx=ast.Load()), args=[ast.Constant(value=v)], keywords=[])
        else:
            if "Qint" in ptypes.get(a.arg, "") or "Qfixed" in ptypes.get(a.arg, ""):
                return None  # typed leaves inside a list / tuple cannot be written as typed constants here
            val = literal(v)
        pre.append(ast.Assign(targets=[ast.Name(id=a.arg, ctx=ast.Store())], value=val))
    _drop_params(fd, values)
    fd.body = pre + fd.body
    return ast.unparse(ast.fix_missing_locations(t)) + "\n"


def typed_arguments(src):
    """the same program with every Parameter[T] turned into an ordinary argument of type T"""
    t = ast.parse(src)
    fd = t.body[0]
    for a in fd.args.args:
        an = a.annotation
        if isinstance(an, ast.Subscript) and isinstance(an.value, ast.Name) and an.value.id == "Parameter":
            a.annotation = an.slice
    return ast.unparse(ast.fix_missing_locations(t)) + "\n"


def encode_bits(name, ty, v):
    """{bit name: bool} of value v of type ty as the front end names argument bits; None if not expressible"""
    ty = ty.strip()
    if ty == "bool":
        return {name: bool(v)}
    w = width(ty)
    if w is not None:
        if not isinstance(v, int) or isinstance(v, bool) or v >= 2 ** w:
            return None
        return {f"{name}.{i}": bool((v >> i) & 1) for i in range(w)}
    fx = fixed_of(ty)
    if fx is not None:
        i_, f_ = fx
        if not isinstance(v, float) or v < 0 or v >= 2 ** i_ or (v * 2 ** f_) != int(v * 2 ** f_):
            return None
        ip, fp = int(v), int(round((v - int(v)) * 2 ** f_))
        out = {f"{name}.{k}": bool((ip >> k) & 1) for k in range(i_)}  # integer part, least significant first
        out.update({f"{name}.{i_ + k}": bool((fp >> (f_ - 1 - k)) & 1) for k in range(f_)})  # fraction, most significant first
        return out
    if ty == "Qchar":
        if not isinstance(v, str) or len(v) != 1 or ord(v) > 255:
            return None
        return {f"{name}.{k}": bool((ord(v) >> k) & 1) for k in range(8)}
    m = re.match(r"^Qmatrix\[(.*)\]$", ty)
    if m:
        from m_c10 import _split_top

        et, rows, cols = _split_top(m.group(1))
        return encode_bits(name, "Tuple[" + ", ".join([f"Qlist[{et}, {int(cols)}]"] * int(rows)) + "]", v)
    m = re.match(r"^Tuple\[(.*)\]$", ty)
    elts = None
    if m:
        from m_c10 import _split_top

        elts = _split_top(m.group(1))
    m = re.match(r"^Qlist\[(.*)\]$", ty)
    if m:
        from m_c10 import _split_top

        parts = _split_top(m.group(1))
        if len(parts) == 2 and parts[1].isdigit():
            elts = [parts[0]] * int(parts[1])
    if elts is None or not isinstance(v, list) or len(v) != len(elts):
        return None
    out = {}
    for i, (et, ev) in enumerate(zip(elts, v)):
        sub = encode_bits(f"{name}.{i}", et, ev)
        if sub is None:
            return None
        out.update(sub)
    return out


def as_form(v, form, depth=0):
    """the Python value handed to bind(): sequences as tuples, as lists, or alternating by depth"""
    if isinstance(v, list):
        if depth == 0 and form == "lazy":
            # zip(*cols) / map(tuple, rows) / a generator of tuples: every nested container is a temporary that is
            # built when bind asks for it and freed before the next one exists (so object ids repeat)
            return (as_form(x, "tuple", 1) for x in v)
        inner = "tuple" if form in ("iterator", "generator") else form
        seq = [as_form(x, inner, depth + 1) for x in v]
        if depth == 0 and form == "iterator":
            return iter(seq)  # a one-shot iterator: bind may walk it only once
        if depth == 0 and form == "generator":
            return (x for x in seq)
        if form == "list" or (form == "mixed" and depth % 2 == 0):
            return seq
        return tuple(seq)
    return v


class _T:
    def __class_getitem__(cls, k):
        return cls


def python_function(src, extra_srcs=()):
    """the unbound program as plain Python on ints / bools / tuples"""
    ns = {"Qint": _T, "Qlist": _T, "Tuple": _T, "List": _T, "Parameter": _T, "bool": bool, "Qfixed": _T, "Qchar": _T, "Qmatrix": _T}
    for w in (2, 3, 4, 5, 6, 7, 8):
        ns[f"Qint{w}"] = int
    for s in extra_srcs:
        exec(s, ns)
    exec(src, ns)
    return ns[ast.parse(src).body[0].name]


def crop(v, ret):
    w = width(ret)
    if w is not None:
        return int(v) % (2 ** w)
    return bool(v)


# ------------------------------------------------------------------ generation


class Gen:
    def __init__(self, seed, tier):
        self.seed, self.tier = seed, tier
        rc = rng_for(seed, "cfg")
        self.r = rng_for(seed, "ops")
        arms = [("clean", 0.35), ("reject", 0.25), ("transparent", 0.28), ("interrupt", 0.12)] if tier == "quick" else [("clean", 0.3), ("reject", 0.2), ("transparent", 0.3), ("interrupt", 0.2)]
        self.arm = wchoice(rc, arms)
        self.cfg = {"arm": self.arm, "ipykernel": rc.random() < 0.25, "rseed": rc.randrange(1 << 16), "nfun": rc.randint(1, 4), "nbind": rc.randint(3, 24),
                    "p_d": rc.choice([0.0, 0.3, 0.6]), "p_repeat": rc.choice([0.2, 0.4, 0.6])}
        self.ops = []
        self.unbound = []  # {id, params, args, ret, tmpl, src, values_seen}

    def add(self, kind, a, uses):
        oid = len(self.ops)
        self.ops.append({"id": oid, "kind": kind, "a": a, "uses": sorted(set(uses))})
        return oid

    def new_unbound(self):
        r = self.r
        name = r.choice(["f", "g", "test", "oracle", "h"])
        if r.random() < self.cfg["p_d"] and D_POOL:
            src, params, args, ret, tmpl, defs = gen_d(r, name)
        else:
            src, params, args, ret, tmpl, defs = gen_g(r, name)
        uses, dsrc = [], []
        for dn in defs:
            csrc = [c for c in CALLEES if c[0] == dn][0][1]
            cid = self.add("callee", {"src": csrc}, [])
            uses.append(cid)
            dsrc.append(csrc)
        a = {"src": src, "defs": uses, "opt": "fast" if r.random() < 0.3 else "default", "to_compile": r.random() >= 0.3, "uncompute": True, "via": "callable" if r.random() < 0.2 else "qlassf",
             "params": [[n, t] for n, t in params], "args": [[n, t] for n, t in args], "ret": ret, "tmpl": tmpl, "callee_srcs": dsrc}
        oid = self.add("unbound", a, uses)
        self.unbound.append({"id": oid, "params": params, "seen": []})

    def bind(self):
        r = self.r
        u = r.choice(self.unbound)
        if u["seen"] and r.random() < self.cfg["p_repeat"]:
            vals, order = r.choice(u["seen"])
            vals, order = dict(vals), list(order)
            if len(order) > 1 and r.random() < 0.4:
                r.shuffle(order)
        else:
            vals = {n: gen_value08(t, r) for n, t in u["params"]}
            order = [n for n, _ in u["params"]]
            if len(order) > 1 and r.random() < 0.5:
                r.shuffle(order)
            u["seen"].append((vals, order))
        fault = None
        if self.arm == "reject" and r.random() < 0.3:
            fault = r.choice(["missing", "unknown", "bad_value"])
            if fault == "missing" and order:
                order = order[:-1]
            elif fault == "unknown":
                order = order + ["zz_nope"]
                vals = dict(vals, zz_nope=True)
            else:
                # a value that makes the body illegal (e.g. an index out of range)
                n0 = order[0] if order else None
                if n0 is not None:
                    vals = dict(vals)
                    t0 = dict(u["params"]).get(n0, "bool")
                    vals[n0] = (2 ** (width(t0) or 3)) if not isinstance(vals[n0], list) else vals[n0][:1]
        a = {"target": u["id"], "values": vals, "order": order, "form": r.choice(["tuple", "tuple", "list", "mixed", "iterator", "generator", "lazy"])}
        if r.random() < 0.25:
            a["share"] = True
            # make it matter: two parameters of one (list / tuple) type get the SAME value, hence the same object
            bytype = {}
            for n, t in u["params"]:
                bytype.setdefault(t, []).append(n)
            same = [ns for t, ns in sorted(bytype.items()) if len(ns) >= 2 and isinstance(vals.get(ns[0]), list)]
            if same and not fault and r.random() < 0.6:
                ns = r.choice(same)
                vals = dict(vals)
                vals[ns[1]] = vals[ns[0]]
                a["values"] = vals
        if fault:
            a["fault"] = fault
        self.add("bind", a, [u["id"]])

    def run(self):
        r = self.r
        for _ in range(self.cfg["nfun"]):
            self.new_unbound()
        for _ in range(self.cfg["nbind"]):
            if r.random() < 0.05 and len(self.unbound) < 5:
                self.new_unbound()
            self.bind()
        faults = []
        if self.arm in ("transparent", "interrupt"):
            rf = rng_for(self.seed, "faults")
            binds = [o["id"] for o in self.ops if o["kind"] == "bind"]
            for j in range(rf.randint(1, 4)):
                if not binds:
                    break
                kind = "interrupt" if (self.arm == "interrupt" and j < 2) else ("flush" if rf.random() < 0.75 else "gc")
                faults.append({"op": rf.choice(binds), "kind": kind, "frac": round(rf.random() if rf.random() < 0.9 else 1.0, 6)})
        return {"prop": PROP, "seed": self.seed, "tier": self.tier, "cfg": self.cfg, "ops": self.ops, "faults": faults}


def generate(seed, tier, env=None, canaries=None):
    p = Gen(seed, tier).run()
    if env is not None:
        p["cfg"]["hashseed"], p["cfg"]["cache"] = env["hashseed"], env["cache"]
    return p


def generate_lifetime(seed, tier, nseg=None, canaries=None):
    r = rng_for(seed, "lifetime")
    if tier == "quick":
        # two environments only: every environment costs one reference table (forks) up front
        hs, ca = r.choice([(0, 1000), (1, 8)])
        env = {"hashseed": hs, "cache": ca}
    else:
        env = {"hashseed": r.choice(HASHSEEDS[tier]), "cache": r.choice(CACHES[tier])}
    n = nseg or SEGMENTS[tier]
    segs = [generate(int(digest([seed, j], 15), 16), tier, env) for j in range(n)]
    return {"prop": PROP, "seed": seed, "tier": tier, "env": env, "segments": segs}


# ------------------------------------------------------------------ execution


def table_of(qf):
    """(header, rows as plain bools) exhaustively, or None when too large"""
    import fingerprint as F

    bits = sum(len(a.bitvec) for a in qf.args)
    if bits > MAX_TABLE_BITS:
        return None
    hdr = list(qf.truth_table_header())
    rows = [[F.fp_expr(c) for c in row] for row in qf.truth_table()]
    norm = []
    for row in rows:
        nr = []
        for c in row:
            if c is True or c == "BooleanTrue":
                nr.append(True)
            elif c is False or c == "BooleanFalse":
                nr.append(False)
            else:
                nr.append(c)
        norm.append(nr)
    return hdr, norm


def circuit_outputs(qf, inbits):
    """the compiled circuit of qf run classically on one basis input: values of output_qubits, or None when the
    circuit is not a reversible classical circuit of X / controlled-X gates"""
    qc = qf.circuit()
    st = [False] * qc.num_qubits
    iq = list(qf.input_qubits)
    if len(iq) != len(inbits):
        raise ValueError("input_qubits has %d entries for %d input bits" % (len(iq), len(inbits)))
    for q, b in zip(iq, inbits):
        st[q] = bool(b)
    for g, w, _p in qc.gates:
        nm = type(g).__name__
        if nm in ("Barrier", "NopGate", "I"):
            continue
        if nm == "X":
            st[w[0]] = not st[w[0]]
        elif nm in ("CX", "CCX", "MCX") or (hasattr(g, "n_controls") and type(getattr(g, "gate", None)).__name__ == "X"):
            if all(st[c] for c in w[:-1]):
                st[w[-1]] = not st[w[-1]]
        else:
            return None
    return [st[q] for q in qf.output_qubits]


def decode_rows(hdr, rows, args, ret):
    """[(inputs dict of python values, returned python value)] from a truth table"""
    if ret != "bool" and width(ret) is None:
        return None  # return type the Python-level oracle does not decode (tuples): B2 / B6 still apply
    out = []
    nin = len(hdr) - (width(ret) or 1)
    for row in rows:
        bits = dict(zip(hdr[:nin], row[:nin]))
        ins = {}
        for n, t in args:
            w = width(t)
            if t == "bool":
                ins[n] = bool(bits[n])
            elif w is not None:
                ins[n] = sum((1 << i) for i in range(w) if bits[f"{n}.{i}"])
            else:
                return None  # argument type the Python-level oracle does not decode
        rb = row[nin:]
        if any(not isinstance(b, bool) for b in rb):
            return None
        w = width(ret)
        val = sum((1 << i) for i in range(w) if rb[i]) if w is not None else bool(rb[0])
        out.append((ins, val))
    return out


def run_segment(plan, ctx, detail=False, table=None):
    import gc
    import shutil

    import fingerprint as F
    from m_c10 import _opt, exec_one
    from node import apply_env, get_tracer

    from qlasskit import qlassf

    cfg, ops = plan["cfg"], plan["ops"]
    byid = {op["id"]: op for op in ops}
    apply_env(cfg)
    tracer = get_tracer(ctx.src_prefix)
    est = Estimator(ctx, byid)
    faults = {}
    planned = {}
    for f in plan.get("faults", []):
        faults.setdefault(f["op"], []).append(f)
        planned[f["kind"]] = planned.get(f["kind"], 0) + 1
    tmpdir = ctx.tmpdir()
    objs, base = {}, {}
    records, placed = [], []
    probes = {}
    violation = None
    first_fp = {}      # (unbound id, values, order) -> fingerprint digest / outcome of the first such bind
    sem_table = {}     # (unbound id, values) -> table digest, whatever the keyword order
    bind_count = {}
    spec_memo = {}
    soft = []
    after_failed = set()

    def probe(k):
        probes[k] = probes.get(k, 0) + 1

    def viol(oracle, op, changed, **kw):
        v = {"oracle": oracle, "op": op["id"], "op_kind": "bind", "role": "", "changed": sorted(changed), "template": byid[op["a"]["target"]]["a"]["tmpl"] if op["kind"] == "bind" else ""}
        v.update(kw)
        return v

    def do(op, o):
        a = op["a"]
        if op["kind"] == "callee":
            return qlassf(a["src"], to_compile=False)
        if op["kind"] == "unbound":
            if a.get("via") == "callable":
                # a real Python def in a module file, handed to qlassf as a callable (inspect.getsource path)
                from m_c10 import _compile_callable

                return _compile_callable(op, dict(a, via="plain", defs=a["defs"]), o, tmpdir)
            return qlassf(a["src"], defs=[o[i] for i in a["defs"]], to_compile=a["to_compile"], bool_optimizer=_opt(a["opt"]))
        if op["kind"] == "bind":
            kw, memo = {}, {}
            for n in a["order"]:
                key = canon(a["values"][n])
                if a.get("share") and key in memo and isinstance(memo[key], (list, tuple)):  # (a one-shot iterator can only be handed over once)
                    kw[n] = memo[key]  # ONE value object handed over for two parameters
                    probe("one_value_object_for_two_parameters")
                else:
                    kw[n] = memo[key] = as_form(a["values"][n], a.get("form", "tuple"))
            res_ = o[a["target"]].bind(**kw)
            if a.get("share"):
                # the caller goes on using its own lists: what was bound may not follow
                for v_ in kw.values():
                    if isinstance(v_, list) and v_:
                        v_.reverse()
                        v_.pop()
                        probe("caller_mutates_its_list_after_bind")
            return res_
        raise RuntimeError(op["kind"])

    def run_one(op, o, flist):
        from node import fire

        rec = {"i": op["id"], "kind": op["kind"]}
        res, outcome = None, "ok"
        tracer.arm([(f[0], f[1]) for f in (flist or [])])
        tracer.start()
        try:
            try:
                res = do(op, o)
            finally:
                tracer.stop()
        except KeyboardInterrupt:
            outcome = "faulted:interrupt"
        except Exception as e:
            outcome = "rejected:" + type(e).__name__
            rec["msg"] = str(e)[:200]
        if any(f[0] == "interrupt" for f in tracer.fired):
            outcome, res = "faulted:interrupt", None
        fired = list(tracer.fired)
        for kk, kind in tracer.pending:
            if kind != "interrupt":
                fire(kind)
                fired.append([kind, "<between-ops>", 0, ""])
        tracer.pending = []
        rec["lines"] = tracer.count
        if fired:
            rec["fired"] = fired
        rec["outcome"] = outcome
        return rec, res

    try:
        for op in ops:
            oid, k, a = op["id"], op["kind"], op["a"]
            if any(u not in objs for u in op["uses"]):
                records.append({"i": oid, "kind": k, "outcome": "skipped"})
                continue
            flist = []
            for f in faults.get(oid, []):
                if "k" in f:
                    kk, how = f["k"], "frozen"
                else:
                    e, how = est.estimate(op)
                    e = max(1, e)
                    kk = e + 1 if f["frac"] >= 1.0 else 1 + int(f["frac"] * e)
                    if f["kind"] == "interrupt" and f["frac"] >= 1.0:
                        kk = e
                flist.append([kk, f["kind"]])
                placed.append({"op": oid, "kind": f["kind"], "frac": f["frac"], "k": kk, "how": how})
            rec, res = run_one(op, objs, flist)
            outcome = rec["outcome"]
            if not any(f[1] == "interrupt" for f in flist):
                est.learn(op, rec.get("lines", 0))
            for f in rec.get("fired", []):
                probe("fired_" + f[0])
                if f[1] != "<between-ops>":
                    probe("fired_in_op_" + f[0])
            if k in ("callee", "unbound"):
                if outcome == "ok" and type(res).__name__ in ("QlassF", "UnboundQlassf"):
                    objs[oid] = res
                    base[oid] = F.fp_any(res)
                    if k == "unbound" and type(res).__name__ != "UnboundQlassf":
                        objs.pop(oid)
                rec["fp"] = digest(base.get(oid))
                records.append(rec)
                continue
            # ---- a bind
            u_op = byid[a["target"]]
            ua = u_op["a"]
            key = (a["target"], canon(a["values"]), canon(a["order"]))
            skey = (a["target"], canon(a["values"]))
            bind_count[a["target"]] = bind_count.get(a["target"], 0) + 1
            if bind_count[a["target"]] >= 3:
                probe("3plus_binds_of_one_object")
            if len(ua["params"]) >= 2 and a["order"] != [n for n, _ in ua["params"]] and len({t for _, t in ua["params"]}) < len(ua["params"]):
                probe("keyword_order_differs_with_same_typed_params")
            if a["target"] in after_failed:
                probe("bind_after_failed_bind")
            if ua["defs"]:
                probe("bind_of_object_with_defs")
            if cfg.get("ipykernel"):
                probe("notebook_path")
            for _, t in ua["params"]:
                probe("param_type:" + re.sub(r"\d+", "n", t))
            def compiled_table(kind, src_fn, to_compile=False):
                sk = (kind, ua["src"], canon(a["values"]) if kind != "typed" else "", ua["opt"], to_compile)
                if sk not in spec_memo:
                    try:
                        sq = qlassf(src_fn(), defs=[objs[i] for i in ua["defs"]], to_compile=to_compile, bool_optimizer=_opt(ua["opt"]))
                        bits = sum(len(x.bitvec) for x in sq.args)
                        t_ = table_of(sq) if bits <= (MAX_TABLE_BITS if kind != "typed" else 12) else None
                        if t_ is None and kind == "typed" and bits <= 12:
                            hdr_ = list(sq.truth_table_header())
                            t_ = (hdr_, [[(True if str(c) == "True" else False if str(c) == "False" else str(c)) for c in row] for row in sq.truth_table()])
                        spec_memo[sk] = (t_, "ok" if t_ is not None else "too_big")
                    except Exception as e:
                        spec_memo[sk] = (None, "rejected:" + type(e).__name__)
                return spec_memo[sk]

            if outcome == "faulted:interrupt":
                after_failed.add(a["target"])
                records.append(rec)
            elif outcome != "ok":
                after_failed.add(a["target"])
                probe("bind_rejected:" + ua["tmpl"].split(":")[0])
                rec["fp"] = None
                if key in first_fp and first_fp[key] != outcome and "fault" not in a:
                    violation = viol("B4", op, [(first_fp[key] if str(first_fp[key]).startswith("rejected") else "ok") + "->" + outcome], msg=rec.get("msg"))
                first_fp.setdefault(key, outcome)
                records.append(rec)
                if violation is None and "fault" not in a:
                    # rejection is allowed only for what cannot be specialised by hand either
                    # (with the unbound function's own to_compile: a refusal by circuit synthesis counts)
                    inj_tb, inj_state = compiled_table("inj", lambda: injected(ua["src"], a["values"]), to_compile=ua["to_compile"])
                    probe("rejected_bind_inj_" + inj_state.split(":")[0])
                    if inj_state in ("ok", "too_big"):
                        violation = viol("B0", op, ["bind rejects a program that is accepted with the assignments prepended by hand: " + outcome], msg=rec.get("msg"), values=a["values"], order=a["order"])
            else:
                fp = F.fp_any(res)
                rec["fp"] = digest(fp)
                records.append(rec)
                # B4: same bind, same result, wherever it is made
                if key in first_fp and first_fp[key] != rec["fp"]:
                    violation = viol("B4", op, ["result differs from the first identical bind"] if not str(first_fp[key]).startswith("rejected") else [first_fp[key] + "->ok"])
                first_fp.setdefault(key, rec["fp"])
                tb = None
                if violation is None:
                    try:
                        tb = table_of(res)
                    except Exception as e:
                        violation = viol("B1", op, ["truth_table raised " + type(e).__name__])
                if tb is not None and violation is None:
                    hdr, rows = tb
                    rec["table"] = digest([hdr, rows])
                    if skey in sem_table and sem_table[skey] != rec["table"]:
                        violation = viol("B4", op, ["truth table differs from an earlier bind to the same values"])
                    sem_table.setdefault(skey, rec["table"])
                    # B6: the bound function's CIRCUIT (what binding is for), run classically on every basis input, carries
                    # the row's outputs on output_qubits. A disagreement that the program with the assignments prepended
                    # by hand -- compiled with the same options -- shows identically is the compiler's (C02), not bind's
                    if ua["to_compile"] and getattr(res, "_qcircuit", None) is not None and "fault" not in a:
                        nin_ = sum(len(x.bitvec) for x in res.args)

                        def circuit_rows(q_):
                            out_ = []
                            for row in rows:
                                if any(not isinstance(c_, bool) for c_ in row):
                                    out_.append("symbolic")
                                    continue
                                try:
                                    out_.append(circuit_outputs(q_, row[:nin_]))
                                except Exception as e:
                                    out_.append("raised " + type(e).__name__)
                            return out_

                        mine = circuit_rows(res)
                        want_rows = [("symbolic" if any(not isinstance(c_, bool) for c_ in row) else row[nin_:]) for row in rows]
                        if any(m_ is None for m_ in mine):
                            probe("B6_not_a_classical_circuit")
                        elif mine == want_rows:
                            probe("B6_ok")
                        else:
                            ck = ("inj_circuit", ua["src"], canon(a["values"]), ua["opt"])
                            if ck not in spec_memo:
                                try:
                                    sq_ = qlassf(injected(ua["src"], a["values"]), defs=[objs[i] for i in ua["defs"]], to_compile=True, bool_optimizer=_opt(ua["opt"]))
                                    spec_memo[ck] = (circuit_rows(sq_) if list(sq_.truth_table_header()) == hdr else None, "ok")
                                except Exception as e:
                                    spec_memo[ck] = (None, "rejected:" + type(e).__name__)
                            hand, hand_state = spec_memo[ck]
                            shared_ = hand is not None and hand == mine
                            # Differential on purpose (DESIGN 10.18): on the unchanged tree the compiler's circuits
                            # disagree with their tables for some programs WITH OR WITHOUT binding (fast profile often,
                            # default profile rarely, functions with no input left always: output_qubits raises) --
                            # C02's matter. Only a bound circuit that differs from the circuit of the hand-built
                            # specialisation compiled with the same options is binding's doing
                            if shared_:
                                probe("circuit_differs_from_table_with_or_without_binding_(C02_matter):" + ua["opt"])
                            elif hand is None:
                                probe("circuit_differs_from_table_and_no_hand_built_circuit_to_compare_(no_verdict)")
                            else:
                                bad_ = next(i_ for i_, (m_, w_) in enumerate(zip(mine, want_rows)) if m_ != w_)
                                violation = viol("B6", op, ["the compiled circuit of the bound function does not compute its truth table, unlike the circuit of the program with the assignments prepended by hand"],
                                                 at=canon(rows[bad_][:nin_]), got=str(mine[bad_]), hand=hand_state if hand is None else str(hand[bad_]), values=a["values"], order=a["order"])
                    # B1 first: the unbound program as plain Python, parameters set to v
                    b1 = None
                    pyf, pv = None, {}
                    if not ua["tmpl"].startswith("corpus"):
                        try:
                            dec = decode_rows(hdr, rows, ua["args"], ua["ret"])
                            if dec is not None:
                                pyf = python_function(ua["src"], ua.get("callee_srcs", ()))
                                pv = {n: to_py(v) for n, v in a["values"].items()}
                                b1 = True
                                for ins, got in dec:
                                    kw = dict(ins)
                                    kw.update(pv)
                                    try:
                                        want_ = crop(pyf(**kw), ua["ret"])
                                    except IndexError:
                                        probe("input_outside_the_python_function's_domain_(row_skipped)")
                                        continue  # the Python function has no value here: nothing to agree with
                                    if want_ != got:
                                        b1 = False
                                        rec["b1_at"] = canon(ins)
                                        break
                        except Exception as e:
                            b1 = None
                            rec["b1_err"] = type(e).__name__
                        probe("B1_" + str(b1))
                        # B5: the classical function the bound object carries (QlassF.f() / original_f) is the
                        # specialised Python function too (not available under a notebook kernel, by design;
                        # callees given as defs= are not in its namespace)
                        if violation is None and pyf is not None and b1 is not None and not ua["defs"] and not cfg.get("ipykernel") and "fault" not in a:
                            b5 = None
                            try:
                                cf = res.f()
                                for ins, _got in dec:
                                    kw = dict(ins)
                                    kw.update(pv)
                                    try:
                                        want_ = crop(pyf(**kw), ua["ret"])
                                    except IndexError:
                                        continue
                                    if crop(cf(**ins), ua["ret"]) != want_:
                                        b5 = "value at " + canon(ins)
                                        break
                            except Exception as e:
                                b5 = "raised " + type(e).__name__
                            probe("B5_" + ("ok" if b5 is None else "differs"))
                            if b5 is not None:
                                violation = viol("B5", op, ["the classical function of the bound object (f()) is not the Python function with the parameters set: " + b5.split(" at ")[0]], at=b5, values=a["values"], order=a["order"])

                    def typed_form_agrees():
                        """the same program with the parameters kept as ordinary arguments of their declared
                        types, restricted to the rows where they equal v: True / False / None (cannot tell)"""
                        ty_tb, ty_state = compiled_table("typed", lambda: typed_arguments(ua["src"]))
                        if ty_tb is None:
                            return None
                        want = {}
                        for n, t_ in ua["params"]:
                            eb = encode_bits(n, t_, a["values"].get(n))
                            if eb is None:
                                return None
                            want.update(eb)
                        th, tr = ty_tb
                        if any(bn not in th for bn in want):
                            return None
                        keep = [i for i, h_ in enumerate(th) if h_ not in want]
                        sel = [[row[i] for i in keep] for row in tr if all(row[th.index(bn)] == bv for bn, bv in want.items())]
                        return [th[i] for i in keep] == hdr and sel == rows

                    # B2: the prepended-assignment form built by the harness, compiled the ordinary way.
                    # Arbitration: a bound function that agrees with plain Python (or, without a Python-level
                    # value, with the typed-argument form) is right even where the hand-built form is not
                    inj_tb, inj_state = compiled_table("inj", lambda: injected(ua["src"], a["values"]))
                    probe("inj_" + inj_state.split(":")[0])
                    b2 = None if inj_tb is None else (inj_tb[0] == hdr and inj_tb[1] == rows)
                    if b2 is False or inj_state.startswith("rejected"):
                        vouched = b1 is True or (b1 is None and typed_form_agrees() is True)
                        if vouched:
                            probe("bind_vouched_for_against_the_hand_built_form_(front_end_matter)")
                        elif b2 is False:
                            violation = viol("B2", op, ["bound function differs from the program with the assignments prepended by hand"], values=a["values"], order=a["order"])
                        else:
                            violation = viol("B2", op, ["bind accepted what the program with the assignments prepended by hand rejects: " + inj_state])
                    # the literal-substituted form: a probe of the front end's consistency, not an oracle for bind
                    lit_tb, lit_state = compiled_table("lit", lambda: specialise(ua["src"], a["values"]))
                    if lit_tb is not None:
                        probe("literal_form_" + ("agrees" if (lit_tb[0] == hdr and lit_tb[1] == rows) else "differs_(front_end_matter)"))
                    if b1 is False and violation is None and "fault" in a:
                        # an injected out-of-range value that bind() happened to accept: Python's arithmetic on
                        # it is not what the library promises for the declared width; no verdict
                        probe("accepted_illegal_value_differs_from_python_(no_verdict)")
                    elif b1 is False and violation is None:
                        # who is responsible? the same program with the parameters kept as typed arguments
                        agree = typed_form_agrees()  # does the typed-argument form give the same rows as bind?
                        if agree is False:
                            # the typed-argument form differs from the bound function, which differs from Python:
                            # binding introduced the difference. Is it the known one -- a Qint value compiled at
                            # its minimal width instead of the declared one? Only if some Qint leaf really is
                            # narrower than declared AND the program with *typed* constants prepended agrees
                            # with Python where that form can be built; anything else is a violation of its own
                            narrow = narrower_than_declared(ua["params"], a["values"])
                            typed_ok = None
                            tsrc = injected_typed(ua["src"], a["values"], ua["params"])
                            if narrow and tsrc is not None:
                                tt_tb, tt_state = compiled_table("inj_typed", lambda: tsrc)
                                if tt_tb is not None:
                                    d2 = decode_rows(tt_tb[0], tt_tb[1], ua["args"], ua["ret"])
                                    typed_ok = d2 is not None and all(crop(pyf(**dict(ins, **pv)), ua["ret"]) == got for ins, got in d2)
                            if narrow and typed_ok is not False:
                                v = viol("B1", op, ["bound function differs from the Python value although the same program with the parameter kept as an argument of its declared type agrees with it"], at=rec.get("b1_at"), values=a["values"])
                                v["role"] = "declared-fixed-type-dropped" if "qfixed" in narrow else "declared-type-dropped"
                                soft.append(v)
                                probe("declared_type_dropped_(known_finding_class)" if "qfixed" not in narrow else "declared_fixed_type_dropped_(known_finding_class)")
                            else:
                                violation = viol("B1", op, ["bound function differs from the Python value; the same program with the parameters kept as typed arguments agrees with it, and no parameter value is narrower than its declared type"], at=rec.get("b1_at"), values=a["values"], order=a["order"])
                        elif agree is True:
                            # the typed-argument form gives the same (wrong) rows: the front end mistranslates
                            # this program with or without binding. The statement of C08 is violated all the
                            # same -- the bound function does not agree with the Python function -- and on the
                            # unchanged tree the generated family never gets here (its constants fit their widths)
                            violation = viol("B1", op, ["bound function differs from the Python value, and so does the same program with the parameters kept as typed arguments (front end wrong with or without binding)"], at=rec.get("b1_at"), values=a["values"], order=a["order"])
                        elif narrower_than_declared(ua["params"], a["values"]):
                            # the typed-argument form is too large to tabulate; a Qint value narrower than declared
                            # is involved: the known finding's situation, reported under its class
                            v = viol("B1", op, ["bound function differs from the Python value although the same program with the parameter kept as an argument of its declared type agrees with it"], at=rec.get("b1_at"), values=a["values"])
                            v["role"] = "declared-fixed-type-dropped" if "qfixed" in narrower_than_declared(ua["params"], a["values"]) else "declared-type-dropped"
                            v["undiagnosed"] = True
                            soft.append(v)
                            probe("declared_type_dropped_probable_(typed_form_too_large)")
                        else:
                            violation = viol("B1", op, ["bound function differs from the Python value (typed-argument form too large to arbitrate, no parameter value narrower than its declared type)"], at=rec.get("b1_at"), values=a["values"], order=a["order"])
                            probe("frontend_disagrees_with_python_with_or_without_binding_(C01_matter)")
                            if os.environ.get("VERIF_DEBUG_FE"):
                                with open(os.environ["VERIF_DEBUG_FE"], "a") as _f:
                                    _f.write(canon({"src": ua["src"], "values": a["values"], "at": rec.get("b1_at"), "agree": agree, "tmpl": ua["tmpl"]}) + "\n")
            # ---- B3: the unbound objects and their callees are what they were
            if violation is None:
                for j, o in objs.items():
                    cur = F.fp_any(o)
                    if cur != base[j]:
                        violation = viol("B3", op, F.changed_fields(base[j], cur), victim=j, victim_kind=base[j].get("kind"), before=base[j], after=cur)
                        break
            if violation is not None:
                break

        # ---- B4 (late): a freshly created unbound object, bound once, gives what the history saw
        late_cmp = 0
        if violation is None:
            hrec = {r_["i"]: r_ for r_ in records}
            done = set()
            for op in ops:
                if op["kind"] != "bind":
                    continue
                h = hrec.get(op["id"])
                if h is None or h["outcome"].startswith(("faulted", "skipped")):
                    continue
                a = op["a"]
                key = (a["target"], canon(a["values"]), canon(a["order"]))
                if key in done:
                    continue
                done.add(key)
                o2 = {}
                ok = True
                for j in closure(byid, op["id"])[:-1]:
                    r2, res2 = run_one(byid[j], o2, None)
                    if r2["outcome"] != "ok":
                        ok = False
                        break
                    o2[j] = res2
                if not ok:
                    continue
                r2, res2 = run_one(op, o2, None)
                late_cmp += 1
                fp2 = digest(F.fp_any(res2)) if r2["outcome"] == "ok" else None
                if r2["outcome"] != h["outcome"]:
                    violation = viol("B4", op, [r2["outcome"] + "->" + h["outcome"]], msg=h.get("msg"), where="history vs fresh unbound object bound once")
                    break
                if r2["outcome"] == "ok" and fp2 != h.get("fp"):
                    violation = viol("B4", op, ["result differs from a fresh unbound object bound once"])
                    break
    finally:
        shutil.rmtree(tmpdir, ignore_errors=True)
    objs.clear()
    gc.collect()
    strip = lambda rr: {k: v for k, v in rr.items() if k not in ("msg",)}
    dg = digest([[strip(r_) for r_ in records], _vclass(violation), [_vclass(x) for x in soft]])
    opk, outc, fired = {}, {}, {}
    for r_ in records:
        opk[r_["kind"]] = opk.get(r_["kind"], 0) + 1
        oc = r_["outcome"].split(":")[0]
        outc[oc] = outc.get(oc, 0) + 1
        for f in r_.get("fired", []):
            fired[f[0]] = fired.get(f[0], 0) + 1
    multi = any(len({k[1] for k in first_fp if k[0] == u}) >= 2 for u in {k[0] for k in first_fp})
    return {"status": "ok", "digest": dg, "violation": violation, "soft": soft[:5], "steps": len(records), "placed": placed,
            "stats": {"ops": opk, "outcomes": outc, "faults_planned": planned, "faults_fired": fired, "probes": probes, "arm": cfg["arm"],
                      "compared": {"late": late_cmp}, "nontrivial": {"yes": 1 if multi else 0}, "lines": sum(r_.get("lines", 0) for r_ in records),
                      "states": [digest([r_["kind"], r_["outcome"].split(":")[0], r_.get("table")], 10) for r_ in records if r_["kind"] == "bind"],
                      "fired_sites": sorted({f"{f[1]}:{f[2]}" for r_ in records for f in r_.get("fired", []) if f[1] != "<between-ops>"})}}


def _vclass(v):
    if v is None:
        return None
    return [v["oracle"], v["op_kind"], v.get("role", ""), sorted(v.get("changed", []))]


def violation_class(v):
    return _vclass(v)


# ------------------------------------------------------------------ shrinking / reporting


def without_ops(plan, removed):
    bad = set(removed)
    changed = True
    while changed:
        changed = False
        for op in plan["ops"]:
            if op["id"] not in bad and any(u in bad for u in op["uses"]):
                bad.add(op["id"])
                changed = True
    p = dict(plan)
    p["ops"] = [op for op in plan["ops"] if op["id"] not in bad]
    p["faults"] = [f for f in plan.get("faults", []) if f["op"] not in bad]
    return p


def simplify_candidates(plan):
    out = []
    for i in range(len(plan.get("faults", []))):
        p = dict(plan)
        p["faults"] = plan["faults"][:i] + plan["faults"][i + 1 :]
        out.append(p)
    cfg = plan["cfg"]
    if cfg.get("ipykernel"):
        p = dict(plan)
        p["cfg"] = dict(cfg, ipykernel=False)
        out.append(p)
    for idx, op in enumerate(plan["ops"]):
        if op["kind"] == "unbound":
            for k2, dv in (("opt", "default"), ("to_compile", False)):
                if op["a"].get(k2) != dv:
                    p = dict(plan)
                    p["ops"] = list(plan["ops"])
                    o2 = dict(op)
                    o2["a"] = dict(op["a"])
                    o2["a"][k2] = dv
                    p["ops"][idx] = o2
                    out.append(p)
    return out


def describe(plan):
    out = []
    for op in plan["ops"]:
        a = op["a"]
        if op["kind"] in ("unbound", "callee"):
            out.append(f"#{op['id']} {op['kind']} {a['src'].strip()!r}" + (f" defs={a['defs']} opt={a['opt']} tc={a['to_compile']} [{a['tmpl']}]" if op["kind"] == "unbound" else ""))
        else:
            out.append(f"#{op['id']} bind #{a['target']} " + ", ".join(f"{n}={a['values'].get(n)!r}" for n in a["order"]) + (f"   (F1: {a['fault']})" if "fault" in a else ""))
    for f in plan.get("faults", []):
        out.append(f"fault {f['kind']} in op #{f['op']} at {f.get('k', f['frac'])}")
    return out


def nontrivial_key(plan, result):
    nt = bool((result or {}).get("stats", {}).get("nontrivial", {}).get("yes"))
    shape = []
    for op in plan["ops"]:
        a = op["a"]
        if op["kind"] == "unbound":
            shape.append(["u", a["tmpl"], [t for _, t in a["params"]], len(a["args"]), bool(a["defs"])])
        elif op["kind"] == "bind":
            shape.append(["b", op["id"] - a["target"], digest(a["values"], 6), a["order"], a.get("fault")])
    return nt, digest([shape, [[f["op"], f["kind"]] for f in plan.get("faults", [])]], 16)


RULE = (
    "history = 1-5 unbound (parameterised) functions, from a typed grammar evaluated by plain Python (parameters bool / Qint[w] / Qlist / Tuple / List[Tuple], 1-4 of them "
    "interleaved with 1-3 real arguments; gating, bitwise, compare, loops over a list parameter, runtime lookup, tuple fields, statement-level if, calls of a def) and from "
    "corpus programs with a seeded subset of arguments re-annotated as Parameter[...]; then 3-24 binds that repeat and alternate values, keyword orders and objects, with "
    "wrong-arity / unknown-keyword / illegal-value binds and seeded faults (cache flush, gc, interrupt at the k-th library source line inside bind). "
    "non-trivial = some unbound object is bound to at least two different value sets. distinct = (template, parameter types, bind sequence with values and orders, fault placement)."
)
COMPONENTS = {
    "real": ["all of qlasskit from the tree under test (qlassf, UnboundQlassf.bind, front end, optimizer, truth_table)", "sympy 1.12", "CPython 3.12"],
    "stub": ["harness-side specialiser (ast literal substitution)", "plain-Python evaluation of the unbound program (stub type names)", "ipykernel marker module"],
}
ASSUMPTIONS = [
    "a difference is charged to bind only if the bound truth table differs from the independently specialised program's AND (when a Python-level value exists) from plain Python's; agreement between the two compiled tables against Python is a front-end matter (C01) and only counted",
    "rejection by bind is an allowed outcome (parameter as constant index, range(parameter)): counted, not flagged",
    "truth tables are exhaustive up to 8 input bits; larger bound functions are compared by fingerprint only",
    "exploration: a clean batch is evidence, not proof",
]
