"""Program pool (DESIGN §3.2): vendored corpus + renamers + rejectors + callers + grammar.

Pure Python, no qlasskit import: generation never sees the system under test.
Every function takes the PRNG it draws from explicitly.
"""
import ast
import json
import os
import re

HERE = os.path.dirname(os.path.abspath(__file__))

# deliberately tiny: different bodies under one name, and one body at several
# points of a history, must be the norm
SMALL_NAMES = ["f", "g", "h", "test", "oracle"]
# x0: the first name sympy's cse invents; anc / anc_0 / a_0 / q0: names (or near-names) the library
# itself gives to ancillas, argument bits (a.0) and qubits
ARG_NAMES = ["a", "b", "c", "x", "y", "x0", "anc", "a_0", "q0", "anc_0"]

# Names that live in the namespace the library exec()s user source into
# (qlasskit/qlassfun.py module globals + the builtins that module uses).  The
# list is static on purpose (generation must not import the library); node.py
# reports at run time which of them actually exist in the tree under test.
LIB_GLOBAL_NAMES = [
    "flatten", "reduce", "copy", "ast", "inspect", "Symbol", "merge_expressions",
    "translate_ast", "ast2ast", "to_quantum", "QlassF", "UnboundQlassf", "partial",
    "Arg", "Args", "LogicFun", "defaultOptimizer", "to_bqm", "Q", "Qtype",
    "format_outcome", "interpret_as_qtype", "type_repr", "in_ipynb",
    "is_parameter_annotation", "qlassf", "qlassfa", "get_args", "QCircuitWrapper",
    "list", "map", "filter", "len", "zip", "bin", "int", "range", "isinstance",
    "hasattr", "eval", "exec", "globals", "issubclass", "Exception",
    "MAX_TRUTH_TABLE_SIZE", "Qint", "Qint2", "Qlist", "Tuple", "List", "bool",
]


def _load():
    with open(os.path.join(HERE, "corpus.json")) as f:
        progs = json.load(f)["programs"]
    for p in progs:
        try:
            fd = ast.parse(p["src"]).body[0]
            p["argsig"] = [[a.arg, ast.unparse(a.annotation) if a.annotation else None] for a in fd.args.args]
            p["retsig"] = ast.unparse(fd.returns) if fd.returns else None
            p["nstmts"] = len(fd.body)
        except Exception:
            p["argsig"], p["retsig"], p["nstmts"] = [], None, 0
    return progs


CORPUS = _load()
# programs kept: accepted, <= 12 input bits, compile < 0.25 s under both profiles
OK = [p for p in CORPUS if p["outcome"] == "ok" and p["in_bits"] <= 12 and p["t"] <= 0.25 and p.get("t_fast", 0) <= 0.25]
FAST = [p for p in OK if p["t"] <= 0.05 and p.get("t_fast", 0) <= 0.05]
PARAM = [p for p in CORPUS if p["outcome"] == "param"]
REJECT = [p for p in CORPUS if p["outcome"] == "reject"]
ONE_ARG = [p for p in OK if p["nargs"] == 1]
ONE_ARG_BOOL = [p for p in ONE_ARG if p["ret_bool"]]
BY_ID = {p["id"]: p for p in CORPUS}

_DEF_RE = re.compile(r"^(\s*def\s+)([A-Za-z_][A-Za-z_0-9]*)(\s*\()", re.M)


def rename(src: str, newname: str) -> str:
    """rename the (single, top-level) function; text-level so the body's formatting survives"""
    return _DEF_RE.sub(lambda m: m.group(1) + newname + m.group(3), src, count=1)


def fname(src: str) -> str:
    m = _DEF_RE.search(src)
    return m.group(2) if m else "?"


class _ArgRenamer(ast.NodeTransformer):
    def __init__(self, mp):
        self.mp = mp

    def visit_arg(self, n):
        if n.arg in self.mp:
            n.arg = self.mp[n.arg]
        if n.annotation is not None:
            pass  # annotations are types, never renamed
        return n

    def visit_Name(self, n):
        if n.id in self.mp:
            n.id = self.mp[n.id]
        return n


def rename_args(src: str, rng) -> str:
    """redraw argument names from ARG_NAMES (ast rename + unparse); falls back to src"""
    try:
        t = ast.parse(src)
        fd = t.body[0]
        old = [a.arg for a in fd.args.args]
        if not old or len(old) > len(ARG_NAMES):
            return src
        new = rng.sample(ARG_NAMES, len(old))
        # never capture a local of the body
        locals_ = {n.id for n in ast.walk(fd) if isinstance(n, ast.Name)} - set(old)
        if set(new) & locals_:
            return src
        mp = dict(zip(old, new))
        fd2 = _ArgRenamer(mp).visit(fd)
        # annotations must stay untouched: restore
        return ast.unparse(ast.fix_missing_locations(t)) + "\n"
    except Exception:
        return src


# ---------------------------------------------------------------- rejectors (F1)

REJECT_KINDS = ["while", "matmul", "unknown_name", "no_return_ann", "unknown_qgate", "bad_type", "undef_call", "bad_index", "lambda", "late_unknown", "unknown_qgate"]


def make_rejector(src: str, rng):
    """a valid program with an unsupported construct spliced at a seeded position.
    Returns (kind, new_src).  Whether the library really rejects it is decided by
    the reference run, not here."""
    kind = rng.choice(REJECT_KINDS)
    try:
        t = ast.parse(src)
        fd = t.body[0]
        body = fd.body
        pos = rng.randrange(len(body) + 1) if body else 0
        rets = [n for n in ast.walk(fd) if isinstance(n, ast.Return) and n.value is not None]
        if kind == "while":
            body.insert(min(pos, len(body) - 1) if body else 0, ast.parse("while True:\n    pass").body[0])
        elif kind == "matmul" and rets:
            r = rng.choice(rets)
            r.value = ast.BinOp(left=r.value, op=ast.MatMult(), right=ast.Name(id=fd.args.args[0].arg if fd.args.args else "zz", ctx=ast.Load()))
        elif kind in ("unknown_name", "late_unknown") and rets:
            r = rets[-1] if kind == "late_unknown" else rng.choice(rets)
            r.value = ast.BoolOp(op=ast.And(), values=[r.value, ast.Name(id="zz_unknown", ctx=ast.Load())]) if kind == "unknown_name" else ast.Name(id="zz_unknown", ctx=ast.Load())
        elif kind == "no_return_ann":
            fd.returns = None
        elif kind == "unknown_qgate" and rets:
            # accepted by the front end, refused by circuit synthesis (after sub-expressions were mapped)
            r = rets[-1]
            r.value = ast.Call(func=ast.Attribute(value=ast.Name(id="Q", ctx=ast.Load()), attr=rng.choice(["Hadamard", "Nope", "QFT"]), ctx=ast.Load()), args=[r.value], keywords=[])
        elif kind == "bad_type" and fd.args.args:
            a = rng.choice(fd.args.args)
            a.annotation = ast.Name(id="Qnothing", ctx=ast.Load())
        elif kind == "undef_call" and rets:
            r = rng.choice(rets)
            r.value = ast.Call(func=ast.Name(id="zz_undefined_fun", ctx=ast.Load()), args=[r.value], keywords=[])
        elif kind == "bad_index" and fd.args.args:
            a = rng.choice(fd.args.args)
            body.insert(min(pos, max(len(body) - 1, 0)), ast.parse(f"zz_i = {a.arg}[77]").body[0])
        elif kind == "lambda" and rets:
            r = rng.choice(rets)
            r.value = ast.Lambda(args=ast.arguments(posonlyargs=[], args=[], kwonlyargs=[], kw_defaults=[], defaults=[]), body=r.value)
        else:
            fd.returns = None
            kind = "no_return_ann"
        return kind, ast.unparse(ast.fix_missing_locations(t)) + "\n"
    except Exception:
        return "syntax", "def " + fname(src) + "(a: bool) -> bool:\n    while a:\n        pass\n    return a\n"


# ---------------------------------------------------------------- callers (defs=)


def make_caller(callee_name: str, argsig, retsig, cname: str, rng, second=None):
    """a caller that applies callee to its own arguments (C10 needs no semantic oracle)."""
    args = [(f"p{i}", ann) for i, (_, ann) in enumerate(argsig)]
    sig = ", ".join(f"{n}: {ann}" for n, ann in args)
    names = [n for n, _ in args]
    # swap two same-typed arguments sometimes
    same = [(i, j) for i in range(len(args)) for j in range(i + 1, len(args)) if args[i][1] == args[j][1]]
    call_names = list(names)
    if same and rng.random() < 0.4:
        i, j = rng.choice(same)
        call_names[i], call_names[j] = call_names[j], call_names[i]
    call = f"{callee_name}({', '.join(call_names)})"
    shape = rng.randrange(4)
    if retsig == "bool":
        if shape == 0:
            body = f"    return {call}\n"
        elif shape == 1:
            body = f"    return not {call}\n"
        elif shape == 2:
            body = f"    r = {call}\n    return r ^ {callee_name}({', '.join(names)})\n"
        else:
            body = f"    r = {call}\n    return r and {callee_name}({', '.join(names)})\n"
    else:
        if shape in (0, 1):
            body = f"    return {call}\n"
        else:
            body = f"    r = {call}\n    return r\n"
    if second is not None and retsig == "bool":
        # a second callee of the same signature, composed
        body = f"    return {call} ^ {second}({', '.join(names)})\n"
    return f"def {cname}({sig}) -> {retsig}:\n{body}"


# ---------------------------------------------------------------- small typed grammar

_GTYPES = ["bool", "Qint[2]", "Qint[4]", "Tuple[bool, bool]", "Qlist[bool, 2]", "Qint[3]"]


def _bexp(rng, bools, ints, depth):
    if depth <= 0 or (rng.random() < 0.3 and bools):
        if bools and (not ints or rng.random() < 0.7):
            return rng.choice(bools)
        if ints:
            a = rng.choice(ints)
            return f"({a[0]} {rng.choice(['==', '!=', '<', '>', '<=', '>='])} {rng.randrange(2 ** a[1])})"
        return rng.choice(["True", "False"])
    k = rng.randrange(6)
    if k == 0:
        return f"(not {_bexp(rng, bools, ints, depth - 1)})"
    if k in (1, 2):
        return f"({_bexp(rng, bools, ints, depth - 1)} {rng.choice(['and', 'or'])} {_bexp(rng, bools, ints, depth - 1)})"
    if k == 3:
        return f"({_bexp(rng, bools, ints, depth - 1)} ^ {_bexp(rng, bools, ints, depth - 1)})"
    if k == 4 and len(ints) >= 1:
        a = rng.choice(ints)
        b = rng.choice(ints)
        return f"({a[0]} {rng.choice(['==', '!=', '<', '>'])} {b[0]})"
    return f"({_bexp(rng, bools, ints, depth - 1)} if {_bexp(rng, bools, ints, depth - 1)} else {_bexp(rng, bools, ints, depth - 1)})"


def _iexp(rng, bools, ints, width, depth):
    same = [i for i in ints if i[1] == width]
    if depth <= 0 or rng.random() < 0.3:
        if same and rng.random() < 0.8:
            return rng.choice(same)[0]
        return str(rng.randrange(2 ** width))
    k = rng.randrange(4)
    if k == 0:
        return f"({_iexp(rng, bools, ints, width, depth - 1)} {rng.choice(['+', '-', '^', '&', '|'])} {_iexp(rng, bools, ints, width, depth - 1)})"
    if k == 1:
        return f"({_iexp(rng, bools, ints, width, depth - 1)} if {_bexp(rng, bools, ints, depth - 1)} else {_iexp(rng, bools, ints, width, depth - 1)})"
    if k == 2 and same:
        return f"({rng.choice(same)[0]} + {rng.randrange(2 ** width)})"
    return f"({_iexp(rng, bools, ints, width, depth - 1)} ^ {_iexp(rng, bools, ints, width, depth - 1)})"


def grammar(rng, name="f", max_bits=8):
    """a generated function of the typed subset; returns (src, meta)"""
    nargs = rng.choice([1, 1, 2, 2, 3])
    args, bools, ints, bits = [], [], [], 0
    for i in range(nargs):
        t = rng.choice(_GTYPES)
        w = {"bool": 1, "Qint[2]": 2, "Qint[3]": 3, "Qint[4]": 4, "Tuple[bool, bool]": 2, "Qlist[bool, 2]": 2}[t]
        if bits + w > max_bits:
            t, w = "bool", 1
        bits += w
        n = ARG_NAMES[i]
        args.append((n, t))
        if t == "bool":
            bools.append(n)
        elif t.startswith("Qint"):
            ints.append((n, w))
        else:
            bools.extend([f"{n}[0]", f"{n}[1]"])
    body = []
    if rng.random() < 0.3:
        # a compile-time constant local whose name is an argument name elsewhere in the pool
        free = [n for n in ARG_NAMES if n not in [a for a, _ in args]]
        cn = rng.choice(free)
        if rng.random() < 0.6 or not ints:
            body.append(f"    {cn} = {rng.choice(['True', 'False'])}")
            bools.append(cn)
        else:
            w = rng.choice(ints)[1]
            body.append(f"    {cn} = {rng.randrange(2 ** w)}")
    nst = rng.randrange(0, 3)
    for s in range(nst):
        v = f"v{s}"
        if ints and rng.random() < 0.4:
            w = rng.choice(ints)[1]
            body.append(f"    {v} = {_iexp(rng, bools, ints, w, 2)}")
            ints.append((v, w))
        else:
            body.append(f"    {v} = {_bexp(rng, bools, ints, 2)}")
            bools.append(v)
    ret_int = bool(ints) and rng.random() < 0.4
    if ret_int:
        w = rng.choice(ints)[1]
        ret, rexp = f"Qint[{w}]", _iexp(rng, bools, ints, w, 2)
    else:
        ret, rexp = "bool", _bexp(rng, bools, ints, 3)
    if rng.random() < 0.25 and not ret_int:
        body.append(f"    if {_bexp(rng, bools, ints, 1)}:\n        r = {rexp}\n    else:\n        r = {_bexp(rng, bools, ints, 2)}")
        rexp = "r"
    src = f"def {name}({', '.join(f'{n}: {t}' for n, t in args)}) -> {ret}:\n" + "\n".join(body) + ("\n" if body else "") + f"    return {rexp}\n"
    meta = {"id": "gram", "nargs": nargs, "in_bits": bits, "ret_bool": not ret_int, "argsig": [[n, t] for n, t in args], "retsig": ret, "t": 0.01, "outcome": "ok"}
    return src, meta


# ---------------------------------------------------------------- typed twins
# helpers that agree in name, argument names, bit widths and boolean expressions but differ in
# their high-level types; a caller uses the result in a type-directed way
TWIN_TYPES = {2: ["Qint[2]", "Tuple[bool, bool]", "Qlist[bool, 2]"], 4: ["Qint[4]", "Qfixed[2, 2]", "Tuple[Qint[2], Qint[2]]", "Qlist[Qint[2], 2]"]}


def typed_twin(rng, name):
    """(helper src, helper meta, caller body builder)"""
    w = rng.choice([2, 4])
    ty = rng.choice(TWIN_TYPES[w])
    shape = rng.choice(["ident", "sel", "sel"])
    if shape == "ident":
        src = f"def {name}(x: {ty}) -> {ty}:\n    return x\n"
        argsig = [["x", ty]]
    else:
        src = f"def {name}(c: bool, x: {ty}, y: {ty}) -> {ty}:\n    return x if c else y\n"
        argsig = [["c", "bool"], ["x", ty], ["y", ty]]
    meta = {"id": "twin", "nargs": len(argsig), "in_bits": w * (len(argsig) - (1 if shape == "sel" else 0)) + (1 if shape == "sel" else 0), "ret_bool": False, "argsig": argsig, "retsig": ty, "t": 0.01, "outcome": "ok", "twin": True}
    return src, meta


def twin_caller(callee_name, argsig, retsig, cname, rng):
    args = [(f"p{i}", ann) for i, (_, ann) in enumerate(argsig)]
    sig = ", ".join(f"{n}: {ann}" for n, ann in args)
    names = [n for n, _ in args]
    call = f"{callee_name}({', '.join(names)})"
    if len(args) == 3:
        call2 = f"{callee_name}({names[0]}, {names[2]}, {names[1]})"
    else:
        call2 = call
    if retsig.startswith("Qint[") or retsig.startswith("Qfixed"):
        form = rng.randrange(3)
        if form == 0:
            return f"def {cname}({sig}) -> bool:\n    hi = {call}\n    lo = {call2}\n    return hi > lo\n"
        if form == 1:
            return f"def {cname}({sig}) -> bool:\n    return {call} >= {call2}\n"
        return f"def {cname}({sig}) -> {retsig}:\n    return {call} + {call2}\n"
    if retsig.startswith("Tuple[bool") or retsig.startswith("Qlist[bool"):
        return f"def {cname}({sig}) -> bool:\n    r = {call}\n    return r[0] and not r[1]\n"
    return f"def {cname}({sig}) -> bool:\n    r = {call}\n    return r[0] == r[1]\n"


# ---------------------------------------------------------------- literal twins
# programs whose literals are equal as Python values but differently typed (1 / 1.0 / True, 3 / 3.0)
LITERAL_TWINS = [
    "def {n}(a: Qfixed[1,2]) -> bool:\n    return a == 1.0\n",
    "def {n}(a: Qfixed[1,2]) -> bool:\n    return a == 0.0\n",
    "def {n}(a: Qint[4]) -> bool:\n    return a > 3\n",
    "def {n}(a: Qint[2]) -> bool:\n    return a == 2\n",
    "def {n}(a: bool) -> Qfixed[2,2]:\n    return 3.0 if a else 1.0\n",
    "def {n}(a: bool) -> Qint[2]:\n    return 3 if a else 0\n",
    "def {n}(a: Qfixed[1,3]) -> Qfixed[1,3]:\n    return a + 1.0\n",
    "def {n}(a: Qint[2]) -> Qint[2]:\n    return a + 1\n",
    "def {n}(a: Qfixed[2,2]) -> bool:\n    return a > 2.0\n",
    "def {n}(a: Qint[2], b: bool) -> bool:\n    return (a == 1) ^ (b == True)\n",
]


def literal_twin(rng, name):
    src = rng.choice(LITERAL_TWINS).format(n=name)
    fd = ast.parse(src).body[0]
    meta = {"id": "littwin", "nargs": len(fd.args.args), "in_bits": 4, "ret_bool": ast.unparse(fd.returns) == "bool",
            "argsig": [[a.arg, ast.unparse(a.annotation)] for a in fd.args.args], "retsig": ast.unparse(fd.returns), "t": 0.01, "outcome": "ok"}
    return src, meta


# ---------------------------------------------------------------- near-twins by AST mutation
# A near-twin of a program keeps most of what a partial cache key could be made of (name, argument names,
# source shape, literals as Python values, bit widths) and changes one thing.  C10 needs no semantic
# oracle, so any mutant is admissible: a mutant the library refuses is simply a rejected operation.
# Never introduces * ** // % (compile time) and never changes the number of arguments.
_ARITH = [ast.Add, ast.Sub, ast.BitXor, ast.BitAnd, ast.BitOr]
_CMP = [ast.Eq, ast.NotEq, ast.Lt, ast.LtE, ast.Gt, ast.GtE]
_SAME_WIDTH = [["Qint[2]", "Qint2", "Tuple[bool, bool]", "Qlist[bool, 2]"],
               ["Qint[4]", "Qint4", "Qfixed[2, 2]", "Tuple[Qint[2], Qint[2]]", "Qlist[Qint[2], 2]", "Qlist[bool, 4]"],
               ["Qint[3]", "Qint3", "Qfixed[1, 2]", "Tuple[bool, bool, bool]", "Qlist[bool, 3]"],
               ["Qint[8]", "Qint8", "Qchar", "Qfixed[4, 4]", "Qlist[Qint[4], 2]"]]
MUTATIONS = ["lit_retype", "lit_value", "op_swap", "cmp_swap", "boolop_swap", "negate", "alias", "ret_split", "if_wrap", "ifexp_wrap",
             "arg_retype", "arg_swap", "dup_stmt", "ret_retype", "local_rename"]


def _norm_ann(s):
    return s.replace(" ", "")


class _Sites(ast.NodeVisitor):
    def __init__(self):
        self.nums, self.bools, self.binops, self.cmps, self.boolops, self.names = [], [], [], [], [], []

    def visit_Constant(self, n):
        if isinstance(n.value, bool):
            self.bools.append(n)
        elif isinstance(n.value, (int, float)):
            self.nums.append(n)

    def visit_Subscript(self, n):
        # indices and annotation-like subscripts are left alone (a[1] -> a[1.0] is only noise)
        self.visit(n.value)

    def visit_BinOp(self, n):
        if type(n.op) in _ARITH:
            self.binops.append(n)
        self.generic_visit(n)

    def visit_Compare(self, n):
        if len(n.ops) == 1 and type(n.ops[0]) in _CMP:
            self.cmps.append(n)
        self.generic_visit(n)

    def visit_BoolOp(self, n):
        self.boolops.append(n)
        self.generic_visit(n)

    def visit_Name(self, n):
        if isinstance(n.ctx, ast.Load):
            self.names.append(n)


def mutate(src, meta, rng, kind=None, exclude=()):
    """returns (src', meta', kind) -- a near-twin of src under the same name -- or None"""
    try:
        tree = ast.parse(src)
        fd = tree.body[0]
        if not isinstance(fd, ast.FunctionDef) or not fd.body:
            return None
    except Exception:
        return None
    fd.decorator_list = []
    argn = [a.arg for a in fd.args.args]
    boolargs = [a.arg for a in fd.args.args if a.annotation is not None and ast.unparse(a.annotation) == "bool"]
    sites = _Sites()
    for st in fd.body:
        sites.visit(st)
    kinds = [kind] if kind else [k for k in rng.sample(MUTATIONS, len(MUTATIONS)) if k not in exclude]
    meta2 = dict(meta)
    for k in kinds:
        done = False
        if k == "lit_retype" and (sites.nums or sites.bools):
            n = rng.choice(sites.nums + sites.bools)
            v = n.value
            if isinstance(v, bool):
                n.value = int(v)
            elif isinstance(v, int):
                n.value = float(v) if (v > 1 or rng.random() < 0.5) else bool(v)
            elif isinstance(v, float) and v == int(v):
                n.value = int(v)
            done = n.value is not v and type(n.value) is not type(v)
        elif k == "lit_value" and sites.nums:
            n = rng.choice(sites.nums)
            if isinstance(n.value, int):
                n.value = max(0, n.value + rng.choice([-1, 1, 1, 2]))
                done = True
        elif k == "op_swap" and sites.binops:
            n = rng.choice(sites.binops)
            n.op = rng.choice([o for o in _ARITH if o is not type(n.op)])()
            done = True
        elif k == "cmp_swap" and sites.cmps:
            n = rng.choice(sites.cmps)
            n.ops = [rng.choice([o for o in _CMP if o is not type(n.ops[0])])()]
            done = True
        elif k == "boolop_swap" and sites.boolops:
            n = rng.choice(sites.boolops)
            n.op = ast.Or() if isinstance(n.op, ast.And) else ast.And()
            done = True
        elif k == "negate" and (sites.cmps or sites.boolops):
            n = rng.choice(sites.cmps + sites.boolops)
            inner = ast.parse(ast.unparse(n), mode="eval").body
            new = ast.UnaryOp(op=ast.Not(), operand=inner)
            for f in list(n._fields):
                delattr(n, f) if hasattr(n, f) else None
            n.__class__ = ast.UnaryOp
            n.op, n.operand = new.op, new.operand
            done = True
        elif k == "alias" and argn:
            # a local that copies an argument, named like an argument elsewhere in the pool; one later use goes through it
            a = rng.choice(argn)
            free = [x for x in ARG_NAMES if x not in argn]
            uses = [n for n in sites.names if n.id == a]
            if free and uses:
                t = rng.choice(free)
                rng.choice(uses).id = t
                fd.body.insert(0, ast.parse(f"{t} = {a}").body[0])
                done = True
        elif k == "ret_split" and isinstance(fd.body[-1], ast.Return) and fd.body[-1].value is not None and not isinstance(fd.body[-1].value, ast.Name):
            t = rng.choice(["r", "res", "_ret", "x0", "out"])
            if t not in argn:
                e = fd.body[-1].value
                fd.body[-1:] = [ast.Assign(targets=[ast.Name(id=t, ctx=ast.Store())], value=e), ast.Return(value=ast.Name(id=t, ctx=ast.Load()))]
                done = True
        elif k == "if_wrap" and boolargs and isinstance(fd.body[-1], ast.Return) and fd.body[-1].value is not None:
            e = ast.unparse(fd.body[-1].value)
            m = mutate(f"def _(): return {e}", {}, rng, kind=rng.choice(["op_swap", "cmp_swap", "lit_value", "boolop_swap", "negate"]))
            e2 = ast.unparse(ast.parse(m[0]).body[0].body[-1].value) if m else e
            b = rng.choice(boolargs)
            t = rng.choice(["r", "res", "out"])
            if t not in argn:
                form = rng.randrange(3)
                if form == 0:
                    code = f"{t} = {e}\nif {b}:\n    {t} = {e2}\nreturn {t}"
                elif form == 1:
                    code = f"{t} = {e}\nif {b}:\n    {t} = {e2}\nelse:\n    {t} = {e}\nreturn {t}"
                else:
                    code = f"{t} = {e2}\nif not {b}:\n    {t} = {e}\nreturn {t}"
                fd.body[-1:] = ast.parse(code).body
                done = True
        elif k == "ifexp_wrap" and boolargs and isinstance(fd.body[-1], ast.Return) and fd.body[-1].value is not None:
            e = ast.unparse(fd.body[-1].value)
            m = mutate(f"def _(): return {e}", {}, rng, kind=rng.choice(["op_swap", "cmp_swap", "lit_value", "boolop_swap", "negate"]))
            e2 = ast.unparse(ast.parse(m[0]).body[0].body[-1].value) if m else e
            b = rng.choice(boolargs)
            fd.body[-1] = ast.parse(f"return ({e}) if {b} else ({e2})").body[0]
            done = True
        elif k == "arg_retype" and fd.args.args:
            cand = []
            for i, a in enumerate(fd.args.args):
                if a.annotation is None:
                    continue
                s = _norm_ann(ast.unparse(a.annotation))
                for fam in _SAME_WIDTH:
                    if s in [_norm_ann(x) for x in fam]:
                        cand.append((i, [x for x in fam if _norm_ann(x) != s]))
            if cand:
                i, alts = rng.choice(cand)
                t = rng.choice(alts)
                fd.args.args[i].annotation = ast.parse(t, mode="eval").body
                done = True
        elif k == "ret_retype" and fd.returns is not None:
            s = _norm_ann(ast.unparse(fd.returns))
            for fam in _SAME_WIDTH:
                if s in [_norm_ann(x) for x in fam]:
                    fd.returns = ast.parse(rng.choice([x for x in fam if _norm_ann(x) != s]), mode="eval").body
                    done = True
                    break
        elif k == "arg_swap" and len(fd.args.args) >= 2:
            anns = {}
            for i, a in enumerate(fd.args.args):
                if a.annotation is not None:
                    anns.setdefault(_norm_ann(ast.unparse(a.annotation)), []).append(i)
            same = [v for _, v in sorted(anns.items()) if len(v) >= 2]
            if same:
                i, j = rng.sample(rng.choice(same), 2)
                fd.args.args[i], fd.args.args[j] = fd.args.args[j], fd.args.args[i]
                done = True
        elif k == "dup_stmt":
            ass = [i for i, st in enumerate(fd.body) if isinstance(st, ast.Assign)]
            if ass:
                i = rng.choice(ass)
                fd.body.insert(i + 1, ast.parse(ast.unparse(fd.body[i])).body[0])
                done = True
        elif k == "local_rename":
            locs = sorted({t.id for st in ast.walk(fd) if isinstance(st, ast.Assign) for t in st.targets if isinstance(t, ast.Name)} - set(argn))
            free = [x for x in ARG_NAMES + ["r", "s", "t"] if x not in argn and x not in locs]
            if locs and free:
                old, new = rng.choice(locs), rng.choice(free)
                for n in ast.walk(fd):
                    if isinstance(n, ast.Name) and n.id == old:
                        n.id = new
                done = True
        if done:
            try:
                ast.fix_missing_locations(tree)
                out = ast.unparse(tree) + "\n"
                ast.parse(out)
            except Exception:
                return None
            if out.strip() == ast.unparse(ast.parse(src)).strip():
                return None
            fd2 = ast.parse(out).body[0]
            meta2["argsig"] = [[a.arg, ast.unparse(a.annotation) if a.annotation else None] for a in fd2.args.args]
            meta2["retsig"] = ast.unparse(fd2.returns) if fd2.returns else None
            meta2["ret_bool"] = meta2["retsig"] == "bool"
            meta2["id"] = "mut:" + k
            meta2["mutant_of"] = meta.get("id")
            meta2.pop("twin", None)
            return out, meta2, k
    return None


# ---------------------------------------------------------------- boundary literals
# constants that sit at the edges of the ranges from which the front end infers a literal's type (2, 4, 6, 8, 12, 16
# bits for integers; the fixed-point grid for floats), used where their width matters.  A process-wide table of
# "known types" that earlier work can extend (user-defined types!) shows here.
BOUNDARY = [
    "def {n}(a: Qint[4]) -> Qint[12]:\n    return a + 1020\n",
    "def {n}(a: bool) -> Tuple[Qint[12], bool]:\n    return (1000, a)\n",
    "def {n}(a: Qint[2]) -> Qint[16]:\n    return a + 5000\n",
    "def {n}(a: bool) -> Qfixed[1, 6]:\n    return 0.3 if a else 0.5\n",
    "def {n}(a: Qint[2]) -> Qint[12]:\n    return a + 300\n",
    "def {n}(a: Qint[4]) -> Qint[16]:\n    return a + 16000\n",
    "def {n}(a: Qint[4]) -> Qint[8]:\n    return a + 40\n",
    "def {n}(a: Qint[4]) -> Qint[6]:\n    return a + 20\n",
    "def {n}(a: Qint[2]) -> bool:\n    return (a + 100) > 101\n",
    "def {n}(a: bool) -> Tuple[Qint[8], bool]:\n    return (200, a)\n",
    "def {n}(a: bool) -> Qfixed[1, 4]:\n    return 0.3 if a else 0.75\n",
    "def {n}(a: bool) -> Tuple[Qint[16], bool]:\n    return (9000, not a)\n",
]


def boundary_literal(rng, name):
    if rng.random() < 0.5:
        src = rng.choice(BOUNDARY).format(n=name)
    else:
        k = rng.randint(4, 13)
        lit = rng.choice([2 ** k, 2 ** (k + 1) - 1, rng.randrange(2 ** k, 2 ** (k + 1))])
        inferred = next(w for w in (2, 4, 6, 8, 12, 16) if lit < 2 ** w)
        if rng.random() < 0.6:
            wret = next(w for w in (8, 12, 16, 16) if lit + 16 < 2 ** w) if lit + 16 < 2 ** 16 else 16
            src = f"def {name}(a: Qint[{rng.choice([2, 4])}]) -> Qint[{wret}]:\n    return a + {lit}\n"
        else:
            src = f"def {name}(a: bool) -> Tuple[Qint[{inferred}], bool]:\n    return ({lit}, {rng.choice(['a', 'not a'])})\n"
    fd = ast.parse(src).body[0]
    meta = {"id": "boundary", "nargs": 1, "in_bits": 4, "ret_bool": ast.unparse(fd.returns) == "bool",
            "argsig": [[a.arg, ast.unparse(a.annotation)] for a in fd.args.args], "retsig": ast.unparse(fd.returns), "t": 0.02, "outcome": "ok"}
    return src, meta
