"""Self-tests of the machinery (DESIGN §7).

    selftest.py selftest-determinism [PROP ...]   same plans, other worker count, other runner hash seed -> same digests
    selftest.py selftest-sensitivity [name-filter]  every /verif/mutants/*.patch (and /verif/seeded/*/patch.diff) must make
                                                    the property's quick check exit 1 with a replay that reproduces
Exit 0 iff everything expected happened.
"""
import glob
import json
import os
import subprocess
import sys
import tempfile
import time

HERE = os.path.dirname(os.path.abspath(__file__))
VERIF = os.path.dirname(HERE)
PY = "/venv/bin/python"
RUNNER = os.path.join(HERE, "runner.py")


def determinism(props):
    ok = True
    for prop in props:
        outs = []
        for workers, hs, lifetimes in ((16, "0", 12), (5, "77", 12)):
            fd, path = tempfile.mkstemp(suffix=".digests")
            os.close(fd)
            env = dict(os.environ, PYTHONHASHSEED=hs)
            r = subprocess.run([PY, RUNNER, prop, "--tier", "quick", "--lifetimes", str(lifetimes), "--workers", str(workers), "--budget", "900", "--no-evidence", "--no-fresh", "--dump-digests", path], env=env, capture_output=True, text=True)
            lines = open(path).read().splitlines()
            os.unlink(path)
            outs.append((r.returncode, lines))
        (rc1, a), (rc2, b) = outs
        same = a == b and len(a) > 0
        print(f"determinism {prop}: {len(a)} vs {len(b)} history digests, identical={same}, exit codes {rc1}/{rc2}")
        if not same:
            ok = False
            for x, y in zip(a, b):
                if x != y:
                    print("   first difference:", x, "|", y)
                    break
    return 0 if ok else 1


def props_of(name):
    n = os.path.basename(name)
    out = []
    for p in ("c08", "c10", "c14"):
        if n.startswith(p + "-") or ("-" + p + "-") in n[:12]:
            out.append(p.upper())
    return out


def sensitivity(flt):
    patches = sorted(glob.glob(os.path.join(VERIF, "mutants", "*.patch")))
    for d in sorted(glob.glob(os.path.join(VERIF, "seeded", "*"))):
        pd = os.path.join(d, "patch.diff")
        if os.path.exists(pd):
            patches.append(pd)
    results = []
    for patch in patches:
        label = os.path.basename(patch)[:-6] if patch.endswith(".patch") else os.path.basename(os.path.dirname(patch))
        if flt and not any(f in label for f in flt):
            continue
        if patch.endswith("patch.diff"):
            meta = json.load(open(os.path.join(os.path.dirname(patch), "meta.json")))
            props = [meta["property"]] if isinstance(meta.get("property"), str) else meta.get("property", [])
            expect = meta.get("expected_detected", True)
        else:
            props, expect = props_of(patch), True
        wt = tempfile.mkdtemp(prefix="qv-sens-")
        os.rmdir(wt)
        try:
            subprocess.run(["git", "-C", "/repo", "worktree", "add", "--detach", wt, "HEAD"], check=True, capture_output=True)
            r = subprocess.run(["git", "-C", wt, "apply", patch], capture_output=True, text=True)
            if r.returncode != 0:
                print(f"sensitivity {label}: PATCH DOES NOT APPLY: {r.stderr.strip()[:200]}")
                results.append((label, "patch-failed", False))
                continue
            for prop in props:
                t0 = time.time()
                r = subprocess.run([PY, RUNNER, prop, "--tier", "quick", "--repo", wt, "--no-evidence", "--no-fresh", "--no-shrink", "--lifetimes", "16", "--budget", "150"], capture_output=True, text=True)
                detected = r.returncode == 1 and "VIOLATION property=" + prop in r.stdout
                vl = [ln for ln in r.stdout.splitlines() if ln.startswith("VIOLATION")]
                cls = [ln.split("violation class ")[1].split(" in ")[0] for ln in r.stderr.splitlines() if "] violation class " in ln]
                print(f"sensitivity {label} [{prop}]: {'DETECTED' if detected else 'missed'} (exit {r.returncode}, {time.time() - t0:.0f}s) {cls[:2]}")
                results.append((label + ":" + prop, "detected" if detected else "missed", detected == expect))
                for ln in vl:
                    rp = ln.split("replay=")[1]
                    if os.path.exists(rp):
                        os.unlink(rp)
        finally:
            subprocess.run(["git", "-C", "/repo", "worktree", "remove", "--force", wt], capture_output=True)
    bad = [x for x in results if not x[2]]
    print(f"sensitivity: {len(results) - len(bad)}/{len(results)} as expected")
    for x in bad:
        print("   NOT AS EXPECTED:", x[0], x[1])
    return 0 if not bad else 1


def main():
    mode = sys.argv[1] if len(sys.argv) > 1 else "selftest"
    rest = sys.argv[2:]
    rc = 0
    if mode in ("selftest-determinism", "selftest"):
        rc |= determinism(rest or ["C10", "C08", "C14"])
    if mode in ("selftest-sensitivity", "selftest"):
        rc |= sensitivity(rest if mode == "selftest-sensitivity" else [])
    return rc


if __name__ == "__main__":
    sys.exit(main())
