"""C10 — compilation is pure: session-history machine (DESIGN §3).

generate(seed, tier) -> plan        pure function of the seed; no library import
execute(plan, ctx)    -> result     references (fork per dependency closure),
                                    history (one fork, faults injected), oracles O1-O3
"""
import ast
import os
import re
import sys

import progs
from core import canon, digest, rng_for, wchoice

PROP = "C10"
CROSS = True  # every lifetime is run a second time with its histories in reverse order (runner: cross-lifetime oracle)

HASHSEEDS = {"quick": [0, 1], "thorough": [0, 1, 2, 3, 4, 5, 6, 7]}
CACHES = {"quick": [8, 1000], "thorough": ["off", 8, 64, 1000]}
FRAMEWORKS = {"quick": ["qasm", "sympy", "qiskit"], "thorough": ["qasm", "sympy", "qiskit", "cirq", "qutip"]}
MAX_OPS = {"quick": 60, "thorough": 110}
PRISTINE_K = {"quick": 0, "thorough": 0}
PRISTINE_P = {"quick": 0.0, "thorough": 0.03}  # chance that a history also gets one freshly forked reference
SEGMENTS = {"quick": 24, "thorough": 60}
MAX_LIVE = 16

# ------------------------------------------------------------------ value generation


def _split_top(s):
    out, depth, cur = [], 0, ""
    for ch in s:
        if ch in "[(":
            depth += 1
        elif ch in "])":
            depth -= 1
        if ch == "," and depth == 0:
            out.append(cur.strip())
            cur = ""
        else:
            cur += ch
    if cur.strip():
        out.append(cur.strip())
    return out


def gen_value(ann, rng):
    """a JSON value of the annotated type (lists stand for tuples/lists)"""
    ann = (ann or "bool").strip()
    m = re.match(r"^Parameter\[(.*)\]$", ann)
    if m:
        return gen_value(m.group(1), rng)
    if ann == "bool":
        return rng.random() < 0.5
    m = re.match(r"^Qint\[(\d+)\]$", ann) or re.match(r"^Qint(\d+)$", ann)
    if m:
        return rng.randrange(2 ** int(m.group(1)))
    if ann == "Qchar":
        return rng.choice(["a", "b", "z"])
    m = re.match(r"^(Tuple|tuple)\[(.*)\]$", ann)
    if m:
        return [gen_value(x, rng) for x in _split_top(m.group(2))]
    m = re.match(r"^Qlist\[(.*)\]$", ann)
    if m:
        parts = _split_top(m.group(1))
        if len(parts) == 2:
            if parts[1].isdigit():
                return [gen_value(parts[0], rng) for _ in range(int(parts[1]))]
            if parts[0].isdigit():
                return [gen_value(parts[1], rng) for _ in range(int(parts[0]))]
    m = re.match(r"^List\[(.*)\]$", ann)
    if m:
        return [gen_value(m.group(1), rng) for _ in range(rng.randint(1, 3))]
    m = re.match(r"^Qfixed", ann)
    if m:
        return rng.choice([0.5, 1.0, 0.25])
    return rng.random() < 0.5


def to_py(v):
    """JSON value -> Python value handed to the library (lists become tuples)"""
    if isinstance(v, list):
        return tuple(to_py(x) for x in v)
    return v


# ------------------------------------------------------------------ generation


class Gen:
    def __init__(self, seed, tier, canaries=None):
        self.seed, self.tier = seed, tier
        self.canaries = canaries or []
        r = self.rc = rng_for(seed, "cfg")
        self.r = rng_for(seed, "ops")
        arms = [("clean", 0.3), ("reject", 0.3), ("transparent", 0.28), ("interrupt", 0.12)] if tier == "quick" else [("clean", 0.25), ("reject", 0.25), ("transparent", 0.3), ("interrupt", 0.2)]
        self.arm = wchoice(r, arms)
        self.cfg = {
            "arm": self.arm,
            "hashseed": r.choice(HASHSEEDS[tier]),
            "cache": r.choice(CACHES[tier]),
            "ipykernel": r.random() < 0.15,
            "rseed": r.randrange(1 << 16),
            "sessions": r.randint(1, 4),
            "p_share": r.choice([0.05, 0.2, 0.4, 0.6]),
            "libnames": r.random() < 0.25,
            "grammar": r.random() < 0.3,
            "argrename": r.random() < 0.3,
            "twins": r.random() < 0.3,
            "nops": r.randint(10, MAX_OPS[tier]),
            "mutants": r.random() < 0.4,
        }
        base_w = {
            "compile_str": 5.0, "compile_callable": 1.5, "compile_defs": 2.5, "compile_param": 1.2, "param_defs": 1.0,
            "to_logicfun": 0.8, "bind": 3.0, "oraclize": 2.0, "algo": 3.0, "secret_oracle": 0.4,
            "export": 2.0, "decompile": 1.0, "truth_table": 1.5, "header": 0.3, "repr": 0.3, "again": 1.5, "forget": 0.8, "canary": 1.2, "variant": 0.8, "recompile": 0.6, "decode": 0.5, "custom": 0.35, "param_churn": 0.5, "bind_siblings": 0.6, "compose": 1.2, "wrap_then_recompile": 1.5, "refused_recompile": 1.2,
        }
        # swarm: every run disables / boosts a random subset of op kinds
        self.w = {k: v * r.choice([0, 0.5, 1, 1, 2, 3]) for k, v in sorted(base_w.items())}
        self.w["compile_str"] = max(self.w["compile_str"], 1.0)
        self.names = list(progs.SMALL_NAMES)
        if self.cfg["libnames"]:
            self.libpick = r.sample(progs.LIB_GLOBAL_NAMES, 3)
        else:
            self.libpick = []
        self.fw = FRAMEWORKS[tier]
        self.ops = []
        self.pool = []  # entries: dict(id, rk, meta, s, used, name, srcd)
        self.name_bodies = {}
        self.interrupted = set()
        self.forgotten = set()
        self.planned_interrupts = []
        self.recompiles = {}
        self.side = {}
        self.interesting = []
        self.force = None
        self.recent = []  # (name, src, meta) of the string/callable compiles so far: bases of near-twins

    # -- helpers
    def pick_name(self):
        r = self.r
        if self.libpick and r.random() < 0.5:
            return r.choice(self.libpick)
        used = sorted(self.name_bodies)
        if used and r.random() < 0.45:
            return r.choice(used)
        return r.choice(self.names)

    def corpus_prog(self):
        r = self.r
        src_pool = progs.FAST if self.cfg["cache"] in ("off", 8) else progs.OK
        if self.cfg.get("mutants") and r.random() < 0.4:
            # a near-twin (one AST mutation) of a program compiled earlier in this history, under the SAME name --
            # or of a fresh one, in which case the original follows or precedes it by the ordinary re-use of names
            if self.recent and r.random() < 0.65:
                name, bsrc, bmeta = r.choice(self.recent[-6:])
            else:
                p = r.choice(src_pool)
                name, bsrc, bmeta = None, p["src"], p
            m = progs.mutate(bsrc, bmeta, r)
            if m is not None:
                meta = dict(m[1])
                if name is not None:
                    meta["keepname"] = True
                return m[0], meta
        if self.cfg["grammar"] and r.random() < 0.35:
            src, meta = progs.grammar(r, name="f", max_bits=8)
            return src, meta
        if self.cfg.get("twins") and r.random() < 0.3:
            return progs.typed_twin(r, "sel")
        if r.random() < 0.06:
            return progs.literal_twin(r, "f")
        if r.random() < 0.05:
            return progs.boundary_literal(r, "f")
        p = r.choice(src_pool)
        return p["src"], p

    def cands(self, pred):
        return [e for e in self.pool if pred(e) and e["id"] not in self.interrupted]

    def pick(self, cands, s):
        r = self.r
        if self.force is not None:
            # one-shot: the builder that runs next works on this object if it can (use of an object right after
            # an operation on it was refused)
            f, self.force = self.force, None
            for e in cands:
                if e["id"] == f:
                    return e
        ws = []
        for e in cands:
            w = 3.0 if e["used"] else 1.0
            if e["s"] != s:
                w *= self.cfg["p_share"]
            ws.append((e, w))
        e = wchoice(r, ws)
        return e

    def add(self, kind, a, uses, s, rk, meta=None, name=None, srcd=None):
        oid = len(self.ops)
        # an op that uses an object also depends on the recompiles that object went through so far
        uses = list(uses)
        for u in list(uses):
            uses.extend(self.recompiles.get(u, []))
        if kind == "recompile" and "compiler" not in a:
            # (a recompile the library refuses -- unknown compiler -- is not a dependency of later users of the
            # object: a refused call must not matter to them, which is what the late re-execution then checks)
            self.recompiles.setdefault(a["target"], []).append(oid)
        self.ops.append({"id": oid, "kind": kind, "a": a, "uses": sorted(set(uses)), "s": s})
        self.side[oid] = (rk, meta, name)
        for u in uses:
            for e in self.pool:
                if e["id"] == u:
                    if e["used"]:
                        self.interesting.append(oid)
                    e["used"] += 1
        if rk != "none":
            self.pool.append({"id": oid, "rk": rk, "meta": meta or {}, "s": s, "used": 0, "name": name, "srcd": srcd})
            if len(self.pool) > MAX_LIVE:
                # the oldest never-used entry is forgotten by the generator (it stays live in the run)
                self.pool.pop(0)
        return oid

    def note_name(self, name, src):
        d = digest(src, 8)
        prev = self.name_bodies.setdefault(name, [])
        if prev and d not in prev:
            self.interesting.append(len(self.ops))
        if d not in prev:
            prev.append(d)

    def copts(self):
        r = self.r
        o = {"opt": "fast" if r.random() < 0.3 else "default", "uncompute": r.random() >= 0.15, "to_compile": r.random() >= 0.12}
        if self.arm == "reject" and r.random() < 0.12:
            # the second back end accepts only xor-chains: most programs are refused in mid-synthesis
            o["compiler"] = r.choice(["recompiler", "recompiler", "nosuchcompiler"])
            o["to_compile"] = True
        return o

    # -- op builders (each returns True if it emitted an op)
    def b_compile_str(self, s, callable_=False):
        r = self.r
        src, meta = self.corpus_prog()
        rejected = False
        clean_src = None
        if self.arm == "reject" and r.random() < 0.35:
            clean_src = src
            kind, src = progs.make_rejector(src, r)
            rejected = True
        elif self.arm == "reject" and progs.REJECT and r.random() < 0.1:
            p = r.choice(progs.REJECT)
            src, meta, rejected = p["src"], p, True
        name = progs.fname(src)
        if meta.get("twin"):
            name = r.choice(["sel", "sel", "h"])
            src = progs.rename(src, name)
        elif meta.get("keepname"):
            pass
        elif r.random() < 0.6:
            name = self.pick_name()
            src = progs.rename(src, name)
            if clean_src is not None:
                clean_src = progs.rename(clean_src, name)
        if self.cfg["argrename"] and r.random() < 0.5 and not rejected and not meta.get("twin"):
            src2 = progs.rename_args(src, r)
            if src2 != src:
                src = src2
                meta = dict(meta)
                try:
                    fd = ast.parse(src).body[0]
                    meta["argsig"] = [[x.arg, ast.unparse(x.annotation)] for x in fd.args.args]
                except Exception:
                    pass
        a = {"src": src}
        if str(meta.get("id", "")).startswith("mut:"):
            a["ntwin"] = meta["id"][4:]
        a.update(self.copts())
        if "compiler" in a and not rejected:
            rejected, clean_src = True, src
        if callable_:
            a["via"] = r.choice(["plain", "plain", "deco", "qlassfa", "qlassfa_shared"])
            kind = "compile_callable"
        else:
            a["via"] = "from_function" if r.random() < 0.2 else "qlassf"
            kind = "compile_str"
        a["defs"] = []
        self.note_name(name, src)
        if not rejected and not meta.get("twin") and meta.get("in_bits", 99) <= 12:
            self.recent.append((name, src, {k: v for k, v in meta.items() if k != "keepname"}))
        m2 = dict(meta)
        m2["compiled"] = a["to_compile"] or a["via"] == "deco"
        self.add(kind, a, [], s, "none" if rejected else "qf", m2, name, digest(src, 8))
        if rejected and clean_src is not None and r.random() < 0.5:
            # fix and retry: what a user does right after an exception -- the same program without
            # the offending construct, same name, same options, as the very next operation
            a2 = dict(a, src=clean_src)
            a2.pop("compiler", None)
            self.note_name(name, clean_src)
            oid = self.add(kind, a2, [], s, "qf", m2, name, digest(clean_src, 8))
            self.interesting.append(oid)
        return True

    def b_compile_callable(self, s):
        return self.b_compile_str(s, callable_=True)

    def b_compile_defs(self, s):
        r = self.r
        via_ff = r.random() < 0.35
        if via_ff:
            c = self.cands(lambda e: e["rk"] == "lf")
            if not c:
                via_ff = False
        if not via_ff:
            c = self.cands(lambda e: e["rk"] == "qf" and e["meta"].get("argsig") and e["meta"].get("retsig"))
        if not c:
            return False
        callee = self.pick(c, s)
        m = callee["meta"]
        cname = self.pick_name()
        if cname == callee["name"]:
            cname = cname + "2"
        second = None
        uses = [callee["id"]]
        if r.random() < 0.25:
            c2 = [e for e in c if e["id"] != callee["id"] and e["name"] != callee["name"] and e["meta"].get("argsig") and [t for _, t in e["meta"]["argsig"]] == [t for _, t in m["argsig"]] and e["meta"].get("retsig") == "bool" and m.get("retsig") == "bool"]
            if c2:
                e2 = self.pick(c2, s)
                second = e2["name"]
                uses.append(e2["id"])
        if m.get("twin"):
            src = progs.twin_caller(callee["name"], m["argsig"], m["retsig"], cname, r)
        else:
            src = progs.make_caller(callee["name"], m["argsig"], m["retsig"], cname, r, second)
        if self.arm == "reject" and r.random() < 0.25:
            # F1: calls a function that exists in the pool but is not passed in defs
            uses = uses[1:] if second else []
            if not uses and r.random() < 0.5:
                pass
        a = {"src": src, "via": "from_function" if via_ff else "qlassf", "defs": list(uses)}
        if uses and r.random() < 0.08:
            a["defs"] = a["defs"] + [a["defs"][0]]  # the same definition twice in one defs= list
        a.update(self.copts())
        self.note_name(cname, src)
        meta = {"id": "caller", "nargs": len(m["argsig"]), "in_bits": m.get("in_bits", 4), "ret_bool": m["retsig"] == "bool", "argsig": [[f"p{i}", t] for i, (_, t) in enumerate(m["argsig"])], "retsig": m["retsig"], "compiled": a["to_compile"]}
        self.add("compile_str", a, uses, s, "qf", meta, cname, digest(src, 8))
        return True

    def b_compile_param(self, s):
        r = self.r
        if r.random() < 0.5:
            # the generated family of the bind machine (loops, builtins, lookups, inner defs ...)
            import m_c08

            for _ in range(4):
                gsrc, params, args, ret, tmpl, gdefs = m_c08.gen_g(r, self.pick_name())
                if not gdefs:
                    break
            if not gdefs:
                a = {"src": gsrc, "via": "qlassf", "defs": []}
                a.update(self.copts())
                name = progs.fname(gsrc)
                self.note_name(name, gsrc)
                self.add("compile_str", a, [], s, "unbound", {"params": [[n, f"Parameter[{t}]"] for n, t in params], "argsig": [[n, t] for n, t in args], "retsig": ret, "in_bits": 4, "nargs": len(args), "ret_bool": ret == "bool", "compiled": a["to_compile"]}, name, digest(gsrc, 8))
                return True
        p = r.choice(progs.PARAM)
        src = p["src"]
        name = p["name"]
        if r.random() < 0.5:
            name = self.pick_name()
            src = progs.rename(src, name)
        a = {"src": src, "via": "qlassf", "defs": []}
        a.update(self.copts())
        params = [[n, t] for n, t in p["argsig"] if t and t.startswith("Parameter[")]
        self.note_name(name, src)
        self.add("compile_str", a, [], s, "unbound", {"params": params, "argsig": [[n, t] for n, t in p["argsig"] if not (t and t.startswith("Parameter["))], "retsig": p["retsig"], "in_bits": 4, "nargs": len(p["argsig"]) - len(params), "ret_bool": p["retsig"] == "bool", "compiled": a["to_compile"]}, name, digest(src, 8))
        return True

    def b_param_defs(self, s):
        """a parameterised function that also calls a def: bound several times (S2)"""
        r = self.r
        c = self.cands(lambda e: e["rk"] == "qf" and e["meta"].get("argsig") and e["meta"].get("retsig") == "bool")
        if not c:
            return False
        callee = self.pick(c, s)
        m = callee["meta"]
        cname = self.pick_name()
        if cname == callee["name"]:
            cname += "2"
        args = [(f"p{i}", t) for i, (_, t) in enumerate(m["argsig"])]
        pt = r.choice(["bool", "bool", "Qint[2]"])
        sig = ", ".join([f"k: Parameter[{pt}]"] + [f"{n}: {t}" for n, t in args]) if r.random() < 0.5 else ", ".join([f"{n}: {t}" for n, t in args] + [f"k: Parameter[{pt}]"])
        call = f"{callee['name']}({', '.join(n for n, _ in args)})"
        body = f"    return {call} ^ k\n" if pt == "bool" else f"    return {call} ^ (k == 1)\n"
        src = f"def {cname}({sig}) -> bool:\n{body}"
        a = {"src": src, "via": "qlassf", "defs": [callee["id"]]}
        a.update(self.copts())
        self.note_name(cname, src)
        self.add("compile_str", a, [callee["id"]], s, "unbound", {"params": [["k", f"Parameter[{pt}]"]], "argsig": [[n, t] for n, t in args], "retsig": "bool", "in_bits": m.get("in_bits", 4), "nargs": len(args), "ret_bool": True, "compiled": a["to_compile"], "with_defs": True}, cname, digest(src, 8))
        return True

    def b_to_logicfun(self, s):
        c = self.cands(lambda e: e["rk"] == "qf" and e["meta"].get("argsig") and e["meta"].get("retsig"))
        if not c:
            return False
        e = self.pick(c, s)
        self.add("to_logicfun", {"target": e["id"]}, [e["id"]], s, "lf", e["meta"], e["name"])
        return True

    def b_bind(self, s):
        r = self.r
        c = self.cands(lambda e: e["rk"] == "unbound")
        if not c:
            return False
        e = self.pick(c, s)
        params = e["meta"]["params"]
        vals = {n: gen_value(t, r) for n, t in params}
        order = [n for n, _ in params]
        if len(order) > 1 and r.random() < 0.4:
            r.shuffle(order)
        rejected = False
        if self.arm == "reject" and r.random() < 0.3:
            rejected = True
            if r.random() < 0.5 and order:
                order = order[:-1]
            else:
                order = order + ["zz_nope"]
                vals["zz_nope"] = True
        m = dict(e["meta"])
        self.add("bind", {"target": e["id"], "values": vals, "order": order}, [e["id"]], s, "none" if rejected else "qf", m, e["name"])
        return True

    def one_arg(self, boolret=None):
        loose = self.arm == "reject" and self.r.random() < 0.2

        def pred(e):
            if e["rk"] != "qf" or not (loose or e["meta"].get("compiled", True)):
                return False
            if e["meta"].get("nargs") != 1:
                return False
            if boolret is not None and bool(e["meta"].get("ret_bool")) != boolret:
                return False
            return e["meta"].get("in_bits", 99) <= 8
        return pred

    def b_oraclize(self, s):
        r = self.r
        c = self.cands(self.one_arg())
        if not c:
            return False
        e = self.pick(c, s)
        el = gen_value(e["meta"].get("retsig"), r)
        a = {"target": e["id"], "element": el}
        if r.random() < 0.3:
            a["name"] = self.pick_name()
        nm = a.get("name", "oracle")
        argsig = e["meta"].get("argsig") or [["v", "bool"]]
        self.add("oraclize", a, [e["id"]], s, "qf", {"nargs": 1, "ret_bool": True, "in_bits": e["meta"].get("in_bits", 4), "argsig": [["v", argsig[0][1]]], "retsig": "bool", "compiled": True}, nm)
        return True

    def b_algo(self, s):
        r = self.r
        cls = r.choice(["Grover", "Grover", "GroverEl", "DeutschJozsa", "Simon", "BernsteinVazirani"])
        loose = False
        if self.arm == "reject" and r.random() < 0.25:
            loose = True
            c = self.cands(lambda e: e["rk"] == "qf" and e["meta"].get("compiled", True) and e["meta"].get("in_bits", 99) <= 8)
        elif cls in ("Grover", "DeutschJozsa", "BernsteinVazirani"):
            c = self.cands(self.one_arg(True))
        else:
            c = self.cands(self.one_arg())
        if not c:
            return False
        e = self.pick(c, s)
        a = {"cls": "Grover" if cls == "GroverEl" else cls, "target": e["id"]}
        if cls == "GroverEl":
            a["element"] = gen_value(e["meta"].get("retsig"), r)
        if a["cls"] == "Grover" and e["meta"].get("in_bits", 4) > 5:
            a["n_iterations"] = 1
        self.add("algo", a, [e["id"]], s, "algo", {"in_bits": e["meta"].get("in_bits", 4)}, None)
        if loose and (e["meta"].get("nargs") != 1 or not e["meta"].get("ret_bool")):
            self.use_again(e, s)  # most probably refused (precondition of the algorithm): use the function again
        return True

    def b_secret_oracle(self, s):
        r = self.r
        n = r.randint(2, 5)
        self.add("secret_oracle", {"n": n, "s": r.randrange(2 ** n)}, [], s, "qf", {"nargs": 1, "ret_bool": True, "in_bits": n, "argsig": [["x", f"Qint[{n}]"]], "retsig": "bool", "compiled": True}, "oracle")
        self.note_name("oracle", f"secret{n}")
        return True

    def circ_holder(self):
        # in the reject arm also functions that were never compiled to a circuit (to_compile=False):
        # handing one to an exporter / decompiler / algorithm is refused -- and must leave it as it was
        loose = self.arm == "reject" and self.r.random() < 0.2
        return lambda e: (e["rk"] == "qf" and (loose or e["meta"].get("compiled", True))) or e["rk"] == "algo"

    def b_export(self, s):
        r = self.r
        c = self.cands(self.circ_holder())
        if not c:
            return False
        e = self.pick(c, s)
        fw = r.choice(self.fw)
        if self.arm == "reject" and r.random() < 0.15:
            fw = "nosuchframework"
        mode = r.choice(["circuit", "gate"])
        self.add("export", {"target": e["id"], "fw": fw, "mode": mode}, [e["id"]], s, "none")
        if fw == "nosuchframework":
            self.use_again(e, s)
        elif r.random() < 0.3:
            # the same object exported again at once: in the OTHER mode, or to another framework (whatever the first
            # export left on the object must not decide what the second one gets)
            if r.random() < 0.7:
                self.add("export", {"target": e["id"], "fw": fw, "mode": "gate" if mode == "circuit" else "circuit"}, [e["id"]], s, "none")
            else:
                self.add("export", {"target": e["id"], "fw": r.choice(self.fw), "mode": mode}, [e["id"]], s, "none")
            self.interesting.append(len(self.ops) - 1)
        return True

    def use_again(self, e, s, p=0.6):
        """right after an operation on `e` was refused: the next operation works on `e` again"""
        if self.r.random() < p and self.force is None:
            self.force = e["id"]
            nxt = self.r.choice(["export", "export", "decompile", "truth_table", "compose", "algo", "oraclize"] if e["rk"] == "qf" else ["export", "export", "decompile", "compose"])
            getattr(self, "b_" + nxt)(s)
            self.force = None

    def b_compose(self, s):
        """the compiled circuit of a function / algorithm used as an OPERAND of the composition operators, and the
        result then mutated like any circuit of the caller's ("composed" in the statement): the operand must stay as it was"""
        r = self.r
        c = self.cands(self.circ_holder())
        if not c:
            return False
        e = self.pick(c, s)
        how = r.choice(["append_wider", "iadd_host", "add", "repeat", "copy", "copy_vanilla"])
        a = {"target": e["id"], "how": how, "pseed": r.randrange(1 << 30), "extra": r.randint(0, 2), "n": r.randint(2, 3),
             "mut": [r.choice(["x", "add_qubit", "cx", "barrier", "ri", "h"]) for _ in range(r.randint(1, 4))]}
        uses = [e["id"]]
        if how == "add":
            e2 = self.pick(c, s)
            a["other"] = e2["id"]
            uses.append(e2["id"])
        self.add("compose", a, uses, s, "none")
        return True

    def b_decompile(self, s):
        c = self.cands(self.circ_holder())
        if not c:
            return False
        e = self.pick(c, s)
        self.add("decompile", {"target": e["id"]}, [e["id"]], s, "dec")
        return True

    def b_truth_table(self, s):
        r = self.r
        c = self.cands(lambda e: e["rk"] == "qf")
        if not c:
            return False
        e = self.pick(c, s)
        bits = e["meta"].get("in_bits", 4)
        mx = None
        if bits > 6:
            mx = r.choice([4, 16])
        elif r.random() < 0.3:
            mx = r.choice([1, 2, 3, 4])
        self.add("truth_table", {"target": e["id"], "max": mx}, [e["id"]], s, "none")
        return True

    def b_header(self, s):
        c = self.cands(lambda e: e["rk"] == "qf")
        if not c:
            return False
        e = self.pick(c, s)
        self.add("header", {"target": e["id"]}, [e["id"]], s, "none")
        return True

    def b_decode(self, s):
        """read-only decoding API of functions and algorithm wrappers"""
        r = self.r
        c = self.cands(lambda e: (e["rk"] == "qf" and e["meta"].get("compiled", True)) or e["rk"] == "algo")
        if not c:
            return False
        e = self.pick(c, s)
        bits = "".join(r.choice("01") for _ in range(12))
        a = {"target": e["id"], "bits": bits, "counts": [r.randint(1, 50) for _ in range(3)]}
        if e["rk"] == "qf" and e["meta"].get("argsig"):
            a["enc"] = [gen_value(t, r) for _, t in e["meta"]["argsig"]]  # encode_input(*values): the read-only way in
        self.add("decode", a, [e["id"]], s, "none")
        return True

    def b_repr(self, s):
        c = self.cands(lambda e: e["rk"] in ("qf", "algo", "dec"))
        if not c:
            return False
        e = self.pick(c, s)
        self.add("repr", {"target": e["id"]}, [e["id"]], s, "none")
        return True

    def b_canary(self, s):
        """splice one canary closure (ops with a pristine reference in the batch's table) into the history"""
        if not self.canaries:
            return False
        ci = self.r.randrange(len(self.canaries))
        can = self.canaries[ci]
        remap = {}
        for cop in can["ops"]:
            a = dict(cop["a"])
            if "target" in a:
                a["target"] = remap[a["target"]]
            if "defs" in a:
                a["defs"] = [remap[d] for d in a["defs"]]
            if "other" in a:
                a["other"] = remap[a["other"]]
            uses = [remap[u] for u in cop["uses"]]
            rk, meta, name = cop.get("rk", "none"), cop.get("meta"), cop.get("name")
            oid = self.add(cop["kind"], a, uses, s, rk, meta, name)
            remap[cop["id"]] = oid
            if cop["kind"] in ("compile_str", "compile_callable"):
                self.note_name(progs.fname(a["src"]), a["src"])
        self.ops[oid]["canary"] = ci
        return True

    def custom_ops(self, w, with_types=True):
        """(pick, differ, probe) op descriptors around a user-defined type Qint<w>"""
        tn = f"Qint{w}"
        base = {"opt": "default", "uncompute": True, "to_compile": True, "defs": []}
        pick = dict(base, src=f"def pick(a: bool) -> {tn}:\n    return {tn}(1) if a else {tn}(2)\n", via="plain", defines=[tn], types=[tn])
        differ = dict(base, src="def differ(p0: bool) -> bool:\n    return pick(p0) == pick(not p0)\n", via="qlassf")
        probe = dict(base, src=f"def probe(v: {tn}) -> bool:\n    return v[0] and v[{w - 1}]\n", via="plain", defines=[tn], types=[tn] if with_types else [])
        return pick, differ, probe

    def b_custom(self, s):
        """user-defined types: a function returning one, a caller that never names it, a program that
        names it and is compiled with or (F1) without types=[...]"""
        r = self.r
        if r.random() < 0.25:
            return self.custom_fixed(s)
        w = r.choice([9, 10, 11, 10, 14, 5, 7])
        pick, differ, probe = self.custom_ops(w, with_types=r.random() < 0.5)
        pid = None
        if r.random() < 0.8:
            pid = self.add("compile_callable", pick, [], s, "qf", {"id": "custom", "nargs": 1, "in_bits": 1, "ret_bool": False, "argsig": None, "retsig": None, "compiled": True}, "pick")
            self.note_name("pick", pick["src"])
        if pid is not None and r.random() < 0.8:
            d = dict(differ, defs=[pid])
            self.add("compile_str", d, [pid], s, "qf", {"id": "custom", "nargs": 1, "in_bits": 1, "ret_bool": True, "argsig": [["p0", "bool"]], "retsig": "bool", "compiled": True}, "differ")
            self.note_name("differ", differ["src"])
        if r.random() < 0.8:
            self.add("compile_callable", probe, [], s, "qf" if probe["types"] else "none", {"id": "custom", "nargs": 1, "in_bits": w, "ret_bool": True, "argsig": None, "retsig": "bool", "compiled": True}, "probe")
            self.note_name("probe", probe["src"])
        return True

    def custom_fixed(self, s):
        """a user-defined fixed-point type (class Qfixed1_5(QfixedImp) in the user's module) and a function over it"""
        r = self.r
        i, f = r.choice([(1, 5), (3, 2), (2, 5), (1, 7)])
        tn = f"Qfixed{i}_{f}"
        a = {"opt": "default", "uncompute": True, "to_compile": True, "defs": [], "via": "plain", "defines": [tn], "types": [tn],
             "src": f"def fx(a: Qfixed[{i}, {f}], b: Qfixed[{i}, {f}]) -> bool:\n    return a == b\n"}
        self.add("compile_callable", a, [], s, "qf", {"id": "custom", "nargs": 2, "in_bits": 2 * (i + f), "ret_bool": True, "argsig": None, "retsig": "bool", "compiled": True}, "fx")
        self.note_name("fx", a["src"])
        return True

    def b_param_churn(self, s):
        """bind an unbound function, drop it, create ANOTHER unbound function with the same parameter
        names and types (same name, another body) and bind that to the same values: what a user does
        when editing and re-running a cell, and what recycles the first object's address"""
        import m_c08

        r = self.r
        for _ in range(6):
            gsrc, params, args, ret, tmpl, gdefs = m_c08.gen_g(r, self.pick_name())
            if not gdefs and ret == "bool":
                break
        else:
            return False
        try:
            t = ast.parse(gsrc)
            for n in ast.walk(t):
                if isinstance(n, ast.Return) and n.value is not None:
                    n.value = ast.UnaryOp(op=ast.Not(), operand=n.value)
            gsrc2 = ast.unparse(ast.fix_missing_locations(t)) + "\n"
        except Exception:
            return False
        name = progs.fname(gsrc)
        vals = {n: gen_value(t_, r) for n, t_ in params}
        order = [n for n, _ in params]
        meta = {"params": [[n, f"Parameter[{t_}]"] for n, t_ in params], "argsig": [[n, t_] for n, t_ in args], "retsig": ret, "in_bits": 4, "nargs": len(args), "ret_bool": True, "compiled": True}
        for src in (gsrc, gsrc2):
            a = {"src": src, "via": "qlassf", "defs": [], "opt": "default", "uncompute": True, "to_compile": r.random() < 0.7}
            self.note_name(name, src)
            u = self.add("compile_str", a, [], s, "unbound", dict(meta, compiled=a["to_compile"]), name, digest(src, 8))
            self.add("bind", {"target": u, "values": vals, "order": order}, [u], s, "qf", dict(meta), name)
            if src is gsrc:
                self.add("forget", {"target": u}, [u], s, "none")
                self.pool = [x for x in self.pool if x["id"] != u]
                self.forgotten.add(u)
        return True

    def b_bind_siblings(self, s):
        """bind one unbound function twice to the same values and recompile one of the two results with
        other options: the sibling (and a later identical bind) must not notice"""
        r = self.r
        c = self.cands(lambda e: e["rk"] == "unbound")
        if not c:
            return False
        e = self.pick(c, s)
        params = e["meta"]["params"]
        vals = {n: gen_value(t, r) for n, t in params}
        order = [n for n, _ in params]
        m = dict(e["meta"])
        b1 = self.add("bind", {"target": e["id"], "values": vals, "order": order}, [e["id"]], s, "qf", m, e["name"])
        self.add("bind", {"target": e["id"], "values": vals, "order": order}, [e["id"]], s, "qf", dict(m), e["name"])
        self.add("recompile", {"target": b1, "uncompute": False}, [b1], s, "none")
        if r.random() < 0.5:
            self.add("bind", {"target": e["id"], "values": vals, "order": order}, [e["id"]], s, "qf", dict(m), e["name"])
        return True

    def b_wrap_then_recompile(self, s):
        """wrap a function in an algorithm WITHOUT looking at the algorithm object, recompile the function with the other
        uncompute setting (a legitimate in-place change of the caller's own object), and only then look at / export the
        algorithm: it must be what it was when it was made (whatever the library builds lazily must not read the
        function again later)"""
        r = self.r
        c = self.cands(self.one_arg(True))
        if not c:
            return False
        wide = [e for e in c if e["meta"].get("in_bits", 1) >= 3]  # wide enough for the two uncompute settings to differ
        e = self.pick(wide or c, s)
        a = {"cls": r.choice(["Grover", "Grover", "DeutschJozsa", "BernsteinVazirani"]), "target": e["id"]}
        if a["cls"] == "Grover" and e["meta"].get("in_bits", 4) > 5:
            a["n_iterations"] = 1
        gid = self.add("algo", a, [e["id"]], s, "algo", {"in_bits": e["meta"].get("in_bits", 4)}, None)
        self.ops[-1]["late_look"] = True
        self.add("recompile", {"target": e["id"], "uncompute": not self.byid_uncompute(e["id"])}, [e["id"]], s, "none")
        if r.random() < 0.6:
            self.add("export", {"target": gid, "fw": r.choice(self.fw), "mode": "circuit"}, [gid], s, "none")
        return True

    def byid_uncompute(self, oid):
        """the uncompute setting an object was last compiled with (True when unknown)"""
        cur = True
        for o in self.ops:
            if o["id"] == oid and "uncompute" in o["a"]:
                cur = bool(o["a"]["uncompute"])
            if o["kind"] == "recompile" and o["a"]["target"] == oid and "compiler" not in o["a"]:
                cur = bool(o["a"]["uncompute"])
        return cur

    def b_recompile(self, s):
        """qf.compile(...) again: a legitimate in-place change of the caller's own object"""
        c = self.cands(lambda e: e["rk"] == "qf" and e["meta"].get("argsig") is not None)
        if not c:
            return False
        e = self.pick(c, s)
        if self.arm == "reject" and self.r.random() < 0.3 and e["meta"].get("compiled", True):
            return self.refused_recompile(e, s)
        self.add("recompile", {"target": e["id"], "uncompute": self.r.random() < 0.5}, [e["id"]], s, "none")
        e["meta"] = dict(e["meta"], compiled=True)
        return True

    def refused_recompile(self, e, s):
        # F1: a compile() the library refuses before it touches the object (a compiler that does not exist);
        # the user catches the exception and goes on with the circuit the object already has
        self.add("recompile", {"target": e["id"], "uncompute": self.r.random() < 0.5, "compiler": self.r.choice(["nosuchcompiler", "Internal", "tweedledum2"])}, [e["id"]], s, "none")
        self.interesting.append(len(self.ops) - 1)
        if self.r.random() < 0.8:
            self.force = e["id"]
            nxt = self.r.choice(["oraclize", "oraclize", "algo", "algo", "export", "decompile", "truth_table", "compose"])
            getattr(self, "b_" + nxt)(s)
            self.force = None
        return True

    def b_refused_recompile(self, s):
        """scenario (reject arm only): compile() with a compiler that does not exist on a compiled function, then use it"""
        if self.arm != "reject":
            return False
        c = self.cands(lambda e: e["rk"] == "qf" and e["meta"].get("argsig") is not None and e["meta"].get("compiled", True))
        if not c:
            return False
        one = [e for e in c if e["meta"].get("nargs") == 1 and e["meta"].get("in_bits", 99) <= 8]
        return self.refused_recompile(self.pick(one if one and self.r.random() < 0.7 else c, s), s)

    def b_forget(self, s):
        """drop the host's reference to an object (and collect): frees ids for reuse"""
        c = self.cands(lambda e: True)
        if len(c) < 3:
            return False
        e = self.r.choice(c)
        self.add("forget", {"target": e["id"]}, [e["id"]], s, "none")
        self.pool = [x for x in self.pool if x["id"] != e["id"]]
        self.forgotten.add(e["id"])
        return True

    def b_variant(self, s):
        """re-issue an earlier compile with one option flipped (same source text, other result)"""
        r = self.r
        c = [o for o in self.ops if o["kind"] == "compile_str" and not any(u in self.forgotten or u in self.interrupted for u in o["uses"])]
        if not c:
            return False
        src_op = r.choice(c)
        a = dict(src_op["a"])
        flip = r.choice(["opt", "uncompute", "to_compile"])
        if flip == "opt":
            a["opt"] = "fast" if a["opt"] == "default" else "default"
        else:
            a[flip] = not a[flip]
        rk, meta, name = self.side[src_op["id"]]
        m2 = dict(meta or {})
        m2["compiled"] = a["to_compile"]
        oid = self.add("compile_str", a, list(src_op["uses"]), s, rk, m2, name)
        self.interesting.append(oid)
        return True

    def b_again(self, s, k=None):
        r = self.r
        if not self.ops:
            return False
        if k is None:
            k = r.randrange(len(self.ops))
        src_op = self.ops[k]
        if src_op["kind"] == "forget" or any(u in self.interrupted or u in self.forgotten for u in src_op["uses"]):
            return False
        rk = "none"
        meta, name = None, None
        for e in self.pool:
            if e["id"] == k:
                rk, meta, name = e["rk"], e["meta"], e["name"]
        a = dict(src_op["a"])
        oid = self.add(src_op["kind"], a, list(src_op["uses"]), s, rk, meta, name)
        self.ops[oid]["again_of"] = src_op.get("again_of", k)
        self.interesting.append(oid)
        return True

    def run(self):
        r = self.r
        cfg = self.cfg
        n = cfg["nops"]
        tail = r.randint(2, 3)
        guard = 0
        while len(self.ops) < n - tail and guard < 10 * n:
            guard += 1
            s = r.randrange(cfg["sessions"])
            kind = wchoice(r, sorted(self.w.items()))
            if not self.pool and kind not in ("compile_str", "compile_callable", "compile_param", "secret_oracle"):
                kind = "compile_str"
            n_before = len(self.ops)
            getattr(self, "b_" + kind)(s)
            if self.arm == "interrupt" and len(self.ops) > n_before and len(self.planned_interrupts) < 3:
                last = self.ops[-1]
                # rarer op kinds are interrupted with a higher probability, so that every kind gets its share
                p_int = {"compile_str": 0.06, "compile_callable": 0.15, "bind": 0.3, "oraclize": 0.2, "algo": 0.2, "truth_table": 0.3, "decompile": 0.45, "export": 0.25, "recompile": 0.3, "compose": 0.3}.get(last["kind"], 0)
                if r.random() < p_int:
                    # this op will be interrupted (Ctrl-C at a seeded library line): nothing may use its
                    # result; half of the time the user simply runs the same thing again right away
                    self.planned_interrupts.append({"op": last["id"], "kind": "interrupt", "frac": round(r.random(), 6)})
                    if r.random() < 0.5 and last["kind"] != "recompile":
                        self.b_again(s, last["id"])
                    self.interrupted.add(last["id"])
                    self.pool = [e for e in self.pool if e["id"] != last["id"]]
        if self.arm == "interrupt" and not self.planned_interrupts:
            used = {u for o in self.ops for u in o["uses"]}
            leaf = [o["id"] for o in self.ops if o["id"] not in used and o["kind"] in ("compile_str", "compile_callable", "bind", "oraclize", "algo", "truth_table", "decompile", "export", "compose")]
            if leaf:
                k = r.choice(leaf)
                self.planned_interrupts.append({"op": k, "kind": "interrupt", "frac": round(r.random(), 6)})
                self.interrupted.add(k)
                self.pool = [e for e in self.pool if e["id"] != k]
        early = [o["id"] for o in self.ops[: max(3, len(self.ops) // 3)] if o["id"] not in self.interrupted]
        for _ in range(tail):
            if early:
                self.b_again(r.randrange(cfg["sessions"]), r.choice(early))
        if self.canaries and not any("canary" in o for o in self.ops[len(self.ops) // 2 :]):
            self.b_canary(r.randrange(cfg["sessions"]))  # at least one canary late in every history
        faults = self.gen_faults()
        # ops that get a reference from a pristine fork: every fault target (their line
        # counts place the fault) plus a seeded sample biased to late / re-issued ops
        rp = rng_for(self.seed, "pristine")
        pr = {o["id"] for o in self.ops if "canary" in o}
        resultful = [o["id"] for o in self.ops if o["kind"] not in ("forget", "repr", "header")]
        late = [i for i in resultful if i >= (2 * len(self.ops)) // 3]
        agains = [o["id"] for o in self.ops if "again_of" in o]
        for _ in range(PRISTINE_K[self.tier] + (1 if rp.random() < PRISTINE_P[self.tier] else 0)):
            src = agains if (agains and rp.random() < 0.4) else (late if (late and rp.random() < 0.7) else resultful)
            if src:
                pr.add(rp.choice(src))
        # deferred observation (own stream): in a quarter of the histories, half of the results that REFERENCE other objects
        # are not fingerprinted when they are made but when they are first used -- or at the end. A harness that looks at
        # every new object at once would build whatever the library builds lazily, and hide what that depends on
        rl = rng_for(self.seed, "latelook")
        if rl.random() < 0.25:
            cfg["late_look"] = True
            for o in self.ops:
                if o["kind"] in ("algo", "oraclize", "bind", "compile_str", "compile_callable") and "canary" not in o and rl.random() < 0.5:
                    o["late_look"] = True
        return {"prop": PROP, "seed": self.seed, "tier": self.tier, "cfg": cfg, "ops": self.ops, "faults": faults, "pristine": sorted(pr)}

    def gen_faults(self):
        r = rng_for(self.seed, "faults")
        arm = self.arm
        out = []
        if arm not in ("transparent", "interrupt") or not self.ops:
            return out
        nf = r.randint(1, 4)
        ids = [o["id"] for o in self.ops]
        heavy = [o["id"] for o in self.ops if o["kind"] in ("compile_str", "compile_callable", "bind", "oraclize", "algo", "truth_table", "decompile", "export", "recompile", "compose")]
        inter = [i for i in self.interesting if i < len(self.ops)]
        for j in range(nf):
            if inter and r.random() < 0.5:
                op = r.choice(inter)
            elif heavy and r.random() < 0.8:
                op = r.choice(heavy)
            else:
                op = r.choice(ids)
            kind = "flush" if r.random() < 0.75 else "gc"
            frac = r.random() if r.random() < 0.85 else 1.0  # 1.0 = between this op and the next
            out.append({"op": op, "kind": kind, "frac": round(frac, 6)})
        return out + self.planned_interrupts


def make_canaries(batch_seed, tier):
    """a small pool of closures whose pristine reference is computed once per batch and
    environment (DESIGN §10): canaries are then spliced into histories at seeded places, so
    every history is compared with a fresh-process result without forking for it"""
    out = []
    seen = set()
    want = {"compile_str": 5, "compile_callable": 2, "bind": 3, "oraclize": 2, "algo": 3, "export": 2, "decompile": 1, "truth_table": 2, "secret_oracle": 1, "to_logicfun": 1, "header": 1}
    for rnd in range(6):
        g = Gen(int(digest(["canary", batch_seed, rnd], 15), 16), tier)
        g.cfg["cache"] = 8  # fast programs only: the pool must be valid for every environment
        g.arm = g.cfg["arm"] = "clean"
        g.cfg["nops"] = 40
        g.w["again"] = 0
        g.w["forget"] = 0
        g.run()
        byid = {o["id"]: o for o in g.ops}
        for o in g.ops:
            k = o["kind"]
            if want.get(k, 0) <= 0:
                continue
            cl = closure(byid, o["id"])
            if len(cl) > 4:
                continue
            nops = norm_closure(byid, cl)
            key = digest(nops, 16)
            if key in seen:
                continue
            seen.add(key)
            for p, j in enumerate(cl):
                rk, meta, name = g.side[j]
                nops[p]["rk"], nops[p]["meta"], nops[p]["name"] = rk, meta, name
            out.append({"ops": nops, "key": key})
            want[k] -= 1
    # probes by construction: programs whose argument names are (near-)names the library generates
    # itself, exported as text; and programs over a user-defined type compiled WITHOUT types=[...]
    def cs(i, src, **kw):
        a = {"src": src, "opt": "default", "uncompute": True, "to_compile": True, "via": "qlassf", "defs": []}
        a.update(kw)
        return {"id": i, "kind": "compile_str", "a": a, "uses": [], "s": 0, "rk": "qf", "meta": {"id": "probe", "compiled": True, "in_bits": 3, "nargs": 2}, "name": progs.fname(src)}

    clash = [
        "def p(anc: Qint[2], b: bool) -> bool:\n    return (anc == 1 or b) and (anc[0] or not b)\n",
        "def h(a_0: bool, a: Qint[2]) -> bool:\n    return a_0 and a == 2\n",
        "def g(x0: bool, b: bool, c: bool) -> bool:\n    return (x0 or b) and (b or c) and not (x0 and c)\n",
        "def f(q0: bool, q1: Qint[2]) -> bool:\n    return q0 ^ (q1 == 1)\n",
    ]
    for src in clash:
        for fw, mode in (("qasm", "circuit"), ("qasm", "gate")):
            ops_ = [cs(0, src), {"id": 1, "kind": "export", "a": {"target": 0, "fw": fw, "mode": mode}, "uses": [0], "s": 0, "rk": "none", "meta": None, "name": None}]
            key = digest([{k: x for k, x in o.items() if k not in ("rk", "meta", "name")} for o in ops_], 16)
            if key not in seen:
                seen.add(key)
                out.append({"ops": ops_, "key": key})
    # same-named helpers that agree in argument names, bit widths and boolean expressions but differ
    # in their high-level types, each with a caller that uses the result in a type-directed way
    import random as _random

    for ty in ("Qint[2]", "Tuple[bool, bool]", "Qlist[bool, 2]", "Qint[4]", "Qfixed[2, 2]"):
        hsrc = f"def sel(c: bool, x: {ty}, y: {ty}) -> {ty}:\n    return x if c else y\n"
        argsig = [["c", "bool"], ["x", ty], ["y", ty]]
        csrc = progs.twin_caller("sel", argsig, ty, "top", _random.Random(len(ty)))
        h = cs(0, hsrc)
        h["meta"] = {"id": "twin", "twin": True, "argsig": argsig, "retsig": ty, "nargs": 3, "in_bits": 5, "compiled": True}
        c_ = cs(1, csrc, defs=[0])
        c_["uses"] = [0]
        ops_ = [h, c_]
        key = digest([{k: x for k, x in o.items() if k not in ("rk", "meta", "name")} for o in ops_], 16)
        if key not in seen:
            seen.add(key)
            out.append({"ops": ops_, "key": key})
    # literals that are equal as Python values but differently typed (1 / 1.0 / True ...)
    for i, tmpl in enumerate(progs.LITERAL_TWINS):
        ops_ = [cs(0, tmpl.format(n="lit"))]
        key = digest([{k: x for k, x in o.items() if k not in ("rk", "meta", "name")} for o in ops_], 16)
        if key not in seen:
            seen.add(key)
            out.append({"ops": ops_, "key": key})
    # literals at the edges of the ranges from which the front end infers a constant's type
    for tmpl in progs.BOUNDARY[:7]:
        ops_ = [cs(0, tmpl.format(n="lim"))]
        key = digest([{k: x for k, x in o.items() if k not in ("rk", "meta", "name")} for o in ops_], 16)
        if key not in seen:
            seen.add(key)
            out.append({"ops": ops_, "key": key})
    gc_ = Gen(int(digest(["canary-custom", batch_seed], 15), 16), tier)
    for w in (9, 10, 11):
        pick, differ, probe = gc_.custom_ops(w, with_types=False)
        ops_ = [{"id": 0, "kind": "compile_callable", "a": probe, "uses": [], "s": 0, "rk": "none", "meta": None, "name": "probe"}]
        key = digest([{k: x for k, x in o.items() if k not in ("rk", "meta", "name")} for o in ops_], 16)
        seen.add(key)
        out.append({"ops": ops_, "key": key})
    # variants: the same closure with ONE compile option of its first op flipped -- a process that
    # remembers a translation by source text, name or callee name (and not by everything that
    # determines it) gives one of the two the other's result
    import copy as _copy

    rv = rng_for(batch_seed, "canary-variants")
    for can in list(out):
        first = can["ops"][0]
        if first["kind"] != "compile_str" or rv.random() < 0.4:
            continue
        v = _copy.deepcopy(can)
        a = v["ops"][0]["a"]
        flip = rv.choice(["opt", "uncompute", "via", "body"] if len(v["ops"]) > 1 else ["opt", "uncompute", "via"])
        if flip == "opt":
            a["opt"] = "fast" if a["opt"] == "default" else "default"
        elif flip == "uncompute":
            a["uncompute"] = not a["uncompute"]
            a["to_compile"] = True
        elif flip == "via" and not a.get("defs"):
            a["via"] = "from_function" if a["via"] == "qlassf" else "qlassf"
        else:
            # a callee of the same name and signature with another body (only where something depends on it)
            nm = progs.fname(a["src"])
            meta = v["ops"][0].get("meta") or {}
            if meta.get("retsig") == "bool" and meta.get("argsig"):
                sig = ", ".join(f"{n}: {t}" for n, t in meta["argsig"])
                a["src"] = f"def {nm}({sig}) -> bool:\n    return False\n"
            else:
                a["opt"] = "fast" if a["opt"] == "default" else "default"
        v["key"] = digest([{k: x for k, x in o.items() if k not in ("rk", "meta", "name")} for o in v["ops"]], 16)
        if v["key"] not in seen:
            seen.add(v["key"])
            out.append(v)
    return out


def generate_lifetime(seed, tier, nseg=None, canaries=None):
    """one process lifetime: interpreter-level seams fixed, then `nseg` histories back to back"""
    r = rng_for(seed, "lifetime")
    if tier == "quick":
        # two environments only: every environment costs one reference table (forks) up front
        hs, ca = r.choice([(0, 1000), (1, 8)])
        env = {"hashseed": hs, "cache": ca}
    else:
        env = {"hashseed": r.choice(HASHSEEDS[tier]), "cache": r.choice(CACHES[tier])}
    n = nseg or SEGMENTS[tier]
    segs = [generate(int(digest([seed, j], 15), 16), tier, env, canaries) for j in range(n)]
    return {"prop": PROP, "seed": seed, "tier": tier, "env": env, "segments": segs}


def reftable_jobs(canaries):
    """what the runner must have computed, once per environment, before the batch:
    [(table key, cfg, normalised closure)]"""
    out = []
    for can in canaries:
        nops = [{k: v for k, v in o.items() if k not in ("rk", "meta", "name")} for o in can["ops"]]
        # the notebook marker is read by bind() only: the second variant is computed for closures
        # that contain a bind; other canaries met in a notebook-marker history are not compared
        for ipk in ((False, True) if any(o["kind"] == "bind" for o in nops) else (False,)):
            cfg = {"ipykernel": ipk, "rseed": 0}
            out.append((digest([env_key(cfg), nops], 24), cfg, nops))
    return out


def run_reftable(jobs, ctx):
    """node side of the above: one fork of the pristine zygote per closure"""
    out = {}
    for key, cfg, nops in jobs:
        res = ctx.pristine("m_c10", "run_ref", [ref_cfg(cfg), nops, ctx.src_prefix])
        if "records" not in res:
            return {"status": "harness_error", "where": "reftable", "err": res}
        out[key] = {k: v for k, v in res["records"][-1].items() if k != "i"}
    return {"status": "ok", "table": out}


def generate(seed, tier, env=None, canaries=None):
    g = Gen(seed, tier, canaries)
    if env is not None:
        g.cfg["hashseed"], g.cfg["cache"] = env["hashseed"], env["cache"]
    plan = g.run()
    # an interrupted op has no trustworthy result: nothing may depend on it
    bad = {f["op"] for f in plan["faults"] if f["kind"] == "interrupt"}
    if bad:
        changed = True
        while changed:
            changed = False
            for op in plan["ops"]:
                if op["id"] not in bad and any(u in bad for u in op["uses"]):
                    bad.add(op["id"])
                    changed = True
        inter = {f["op"] for f in plan["faults"] if f["kind"] == "interrupt"}
        plan["ops"] = [op for op in plan["ops"] if op["id"] in inter or op["id"] not in bad]
        live = {op["id"] for op in plan["ops"]}
        plan["faults"] = [f for f in plan["faults"] if f["op"] in live]
        plan["pristine"] = [k for k in plan["pristine"] if k in live]
    return plan


# ------------------------------------------------------------------ execution (inside forks)


def _opt(name):
    from qlasskit.boolopt import defaultOptimizer, fastOptimizer

    return fastOptimizer if name == "fast" else defaultOptimizer


def _custom_type(name):
    """a user-defined integer type, as test/utils.py does it (class Qint14(QintImp): BIT_SIZE = 14)"""
    from qlasskit.types.qint import QintImp

    return type(name, (QintImp,), {"BIT_SIZE": int(name[4:])})


def _compile_callable(op, a, objs, tmpdir):
    import types as _types

    from qlasskit import qlassf

    modname = f"qv_m{op['id']}"
    path = os.path.join(tmpdir, modname + ".py")
    name = progs.fname(a["src"])
    defs = [objs[i] for i in a.get("defs", [])]
    hdr = "from __future__ import annotations\nfrom qlasskit import *\nfrom typing import Tuple, List\n"
    # user-defined types live in the user's module, as in test/utils.py (class Qint14(QintImp): BIT_SIZE = 14)
    for tn in a.get("defines", []):
        if tn.startswith("Qfixed"):
            i_, f_ = tn[6:].split("_")
            hdr += f"from qlasskit.types.qfixed import QfixedImp\nclass {tn}(QfixedImp):\n    BIT_SIZE = {int(i_) + int(f_)}\n    BIT_SIZE_INTEGER = {int(i_)}\n    BIT_SIZE_FRACTIONAL = {int(f_)}\n"
        else:
            hdr += f"from qlasskit.types.qint import QintImp\nclass {tn}(QintImp):\n    BIT_SIZE = {int(tn[4:])}\n"
    tlist = "[" + ", ".join(a.get("types", [])) + "]"
    if a["via"] == "deco":
        text = hdr + "@qlassf\n" + a["src"]
    elif a["via"] == "qlassfa":
        text = hdr + f"@qlassfa(types={tlist}, defs=_defs, to_compile=_tc, uncompute=_un, bool_optimizer=_opt)\n" + a["src"]
    elif a["via"] == "qlassfa_shared":
        # one decorator factory object applied to two functions of the module
        text = (hdr + f"_deco = qlassfa(types={tlist}, defs=_defs, to_compile=_tc, uncompute=_un, bool_optimizer=_opt)\n"
                + "@_deco\ndef zz_first(zz_a: bool, zz_b: bool) -> bool:\n    return zz_a ^ zz_b\n" + "@_deco\n" + a["src"])
    else:
        text = hdr + a["src"]
    with open(path, "w") as f:
        f.write(text)
    mod = _types.ModuleType(modname)
    mod.__file__ = path
    mod.__dict__.update(_defs=defs, _tc=a["to_compile"], _un=a["uncompute"], _opt=_opt(a["opt"]))
    sys.modules[modname] = mod
    code = compile(text, path, "exec")
    exec(code, mod.__dict__)
    f = mod.__dict__[name]
    if a["via"] == "plain":
        kw = {}
        if a.get("types"):
            kw["types"] = [mod.__dict__[t] for t in a["types"]]
        return qlassf(f, defs=defs, to_compile=a["to_compile"], uncompute=a["uncompute"], bool_optimizer=_opt(a["opt"]), **kw)
    return f


def do_op(op, objs, tmpdir):
    """perform one public-API operation; returns the raw result object"""
    k, a = op["kind"], op["a"]
    if k == "compile_str":
        from qlasskit import QlassF, qlassf

        defs = [objs[i] for i in a.get("defs", [])]
        kw = dict(to_compile=a["to_compile"], uncompute=a["uncompute"], bool_optimizer=_opt(a["opt"]))
        if "compiler" in a:
            kw["compiler"] = a["compiler"]
        if a["via"] == "from_function":
            return QlassF.from_function(a["src"], defs=defs, **kw)
        return qlassf(a["src"], defs=defs, **kw)
    if k == "compile_callable":
        return _compile_callable(op, a, objs, tmpdir)
    if k == "to_logicfun":
        return objs[a["target"]].to_logicfun()
    if k == "bind":
        vals = {n: to_py(a["values"][n]) for n in a["order"]}
        return objs[a["target"]].bind(**vals)
    if k == "oraclize":
        from qlasskit.algorithms import oraclize

        kw = {"name": a["name"]} if "name" in a else {}
        return oraclize(objs[a["target"]], to_py(a["element"]), **kw)
    if k == "algo":
        import qlasskit.algorithms as al

        cls = getattr(al, a["cls"])
        if a["cls"] == "Grover":
            kw = {}
            if "element" in a:
                kw["element_to_search"] = to_py(a["element"])
            if "n_iterations" in a:
                kw["n_iterations"] = a["n_iterations"]
            return cls(objs[a["target"]], **kw)
        return cls(objs[a["target"]])
    if k == "secret_oracle":
        from qlasskit.algorithms import secret_oracle

        return secret_oracle(a["n"], a["s"])
    if k == "export":
        import fingerprint as F

        o = objs[a["target"]]
        res = o.export(a["fw"]) if a["mode"] == "circuit" else o.gate(a["fw"])
        return F.fp_export(res, a["fw"])
    if k == "compose":
        import random as _random

        import fingerprint as F
        from qlasskit.qcircuit import QCircuit

        c1 = objs[a["target"]].circuit()
        rr = _random.Random(a["pseed"])
        how = a["how"]
        if how == "append_wider":
            host = QCircuit(c1.num_qubits + a["extra"])
            perm = rr.sample(range(host.num_qubits), c1.num_qubits)
            host.h(perm[0])
            host.append_circuit(c1, perm)
        elif how == "iadd_host":
            host = QCircuit(c1.num_qubits + a["extra"])
            host += c1
            host += c1
        elif how == "add":
            c2 = objs[a["other"]].circuit()
            big, small = (c1, c2) if c1.num_qubits >= c2.num_qubits else (c2, c1)
            host = big + small
        elif how == "repeat":
            host = c1.repeat(a["n"])
        elif how == "copy":
            host = c1.copy()
        else:
            host = c1.copy(True)
        built = F.fp_circuit(host)
        for m in a["mut"]:  # the result is the caller's own circuit now
            if m in ("x", "h"):
                getattr(host, m)(rr.randrange(host.num_qubits))
            elif m == "add_qubit":
                host.add_qubit("zz_%d" % host.num_qubits)
            elif m == "cx" and host.num_qubits > 1:
                q = rr.sample(range(host.num_qubits), 2)
                host.cx(q[0], q[1])
            elif m == "barrier":
                host.barrier()
            elif m == "ri" and hasattr(host, "remove_identities"):
                host.remove_identities()
        return {"kind": "composed", "built": built, "after": F.fp_circuit(host)}
    if k == "decompile":
        from qlasskit.decompiler import Decompiler

        return Decompiler().decompile(objs[a["target"]].circuit())
    if k == "truth_table":
        import fingerprint as F

        return F.fp_table(objs[a["target"]].truth_table(max=a["max"]))
    if k == "header":
        return {"kind": "header", "h": list(objs[a["target"]].truth_table_header())}
    if k == "decode":
        o = objs[a["target"]]
        n = o.output_size
        outs = []
        for sh in range(3):
            b = (a["bits"][sh:] + a["bits"])[: max(n, 1)]
            outs.append(b)
        counts = dict(zip(outs, a["counts"]))
        dec = o.decode_counts(counts)
        res = {"kind": "decoded", "n": n, "out": sorted([repr(kx), vx] for kx, vx in dec.items()), "one": repr(o.decode_output(outs[0])), "iq": [list(o.input_qubits) if hasattr(o, "args") else None, list(o.output_qubits)]}
        if "enc" in a and hasattr(o, "encode_input"):
            try:
                res["enc"] = repr(o.encode_input(*[to_py(v) for v in a["enc"]]))
            except Exception as e:
                res["enc"] = "raises:" + type(e).__name__
        return res
    if k == "recompile":
        import fingerprint as F

        o = objs[a["target"]]
        if "compiler" in a:
            o.compile(compiler=a["compiler"], uncompute=a["uncompute"])
        else:
            o.compile(uncompute=a["uncompute"])
        return {"kind": "recompiled", "fp": F.fp_any(o)}
    if k == "forget":
        import gc

        objs.pop(a["target"], None)
        gc.collect()
        return {"kind": "forgotten"}
    if k == "repr":
        return {"kind": "repr", "r": re.sub(r"0x[0-9a-f]+", "0x?", repr(objs[a["target"]]))}
    raise RuntimeError("unknown op kind " + k)


KEEP = ("compile_str", "compile_callable", "to_logicfun", "bind", "oraclize", "algo", "secret_oracle", "decompile", "recompile")


def fp_result(op, res):
    import fingerprint as F

    if type(res).__name__ == "DecompilerResults":
        return F.fp_decompiled(res)
    return F.fp_any(res)


def role_of(op, victim):
    a = op["a"]
    if a.get("target") == victim:
        return {"algo": "blackbox", "oraclize": "oracle-source", "bind": "unbound", "export": "exported", "compose": "operand", "decompile": "decompiled", "to_logicfun": "converted", "recompile": "recompiled"}.get(op["kind"], "target")
    if victim in a.get("defs", []):
        return "def"
    if op["kind"] == "compose" and a.get("other") == victim:
        return "operand"
    return "bystander"


STATIC_LINES = {"decode": 60, "recompile": 3000, "compile_str": 6000, "compile_callable": 6000, "bind": 5000, "oraclize": 5000, "algo": 300, "secret_oracle": 5000,
                "export": 200, "compose": 300, "decompile": 300, "truth_table": 800, "header": 20, "repr": 30, "to_logicfun": 10, "forget": 1}


class Estimator:
    """expected number of library source lines of an op, for placing a fault at a fraction of it.
    Exact when the same computation (normalised dependency closure) was already seen in this
    process lifetime, else the running median of the op kind, else a static default.
    A deterministic function of the lifetime's plan and the code."""

    def __init__(self, ctx, byid):
        self.ctx, self.byid = ctx, byid

    def key(self, op):
        return digest(norm_closure(self.byid, closure(self.byid, op["id"])), 20)

    def estimate(self, op):
        k = self.key(op)
        t = self.ctx.lines_table
        if k in t:
            return t[k], "exact"
        kl = self.ctx.kind_lines.get(op["kind"])
        if kl:
            return sorted(kl)[len(kl) // 2], "median"
        return STATIC_LINES.get(op["kind"], 500), "static"

    def learn(self, op, lines):
        t = self.ctx.lines_table
        if len(t) < 50000:
            t[self.key(op)] = lines
        kl = self.ctx.kind_lines.setdefault(op["kind"], [])
        kl.append(lines)
        if len(kl) > 51:
            del kl[0]


def exec_one(op, objs, tracer, flist, tmpdir, observe=True):
    """one operation (under the line counter when tracer is given); returns (record, result, fingerprint);
    observe=False: the result is not looked at (fingerprint None, taken later by the caller)"""
    from node import fire

    rec = {"i": op["id"], "kind": op["kind"]}
    outcome, res = "ok", None
    if tracer is not None:
        tracer.arm([(f[0], f[1]) for f in (flist or [])])
        tracer.start()
    try:
        try:
            res = do_op(op, objs, tmpdir)
        finally:
            if tracer is not None:
                tracer.stop()
    except KeyboardInterrupt:
        outcome = "faulted:interrupt"
    except Exception as e:
        outcome = "rejected:" + type(e).__name__
        rec["msg"] = str(e)[:200]
    if tracer is not None:
        if any(f[0] == "interrupt" for f in tracer.fired):
            outcome, res = "faulted:interrupt", None
        fired = list(tracer.fired)
        for kk, kind in tracer.pending:
            if kind != "interrupt":
                fire(kind)
                fired.append([kind, "<between-ops>", 0, ""])
        tracer.pending = []
        rec["lines"] = tracer.count
        if fired:
            rec["fired"] = fired
    rec["outcome"] = outcome
    if outcome == "ok":
        if not observe:
            return rec, res, None
        fp = fp_result(op, res)
        rec["fp"] = digest(fp)
        return rec, res, fp
    return rec, None, None


def run_ref(cfg, ops, prefix, tmpdir):
    """a reference closure, alone, in this (forked, pristine) process; records carry full fingerprints"""
    from node import apply_env, get_tracer

    apply_env(cfg)
    tracer = get_tracer(prefix)
    objs = {}
    records = []
    for op in ops:
        if [u for u in op["uses"] if u not in objs]:
            records.append({"i": op["id"], "kind": op["kind"], "outcome": "skipped"})
            continue
        rec, res, fp = exec_one(op, objs, tracer, [], tmpdir)
        if rec["outcome"] == "ok":
            rec["fpd"] = fp
            if op["kind"] in KEEP:
                objs[op["id"]] = res
        records.append(rec)
    return {"records": records}


def _cmp(h, hfp, r, rfp, op, late):
    """compare a history record with a reference record of the same op"""
    import fingerprint as F

    sfx = "-late" if late else ""
    if h["outcome"] != r["outcome"]:
        return {"oracle": "O3" + sfx, "op": h["i"], "op_kind": _okind(op), "history": h["outcome"], "reference": r["outcome"],
                "changed": [_o3_class(h["outcome"], r["outcome"])], "msg": h.get("msg"), "ref_msg": r.get("msg")}
    if h["outcome"] == "ok" and h.get("fp") != r.get("fp"):
        return {"oracle": "O1" + sfx, "op": h["i"], "op_kind": _okind(op), "changed": F.changed_fields(rfp, hfp), "history_fp": hfp, "reference_fp": rfp}
    return None


def run_history(cfg, ops, faults, prefix, tmpdir, est=None):
    """the history itself, in the calling process: faults injected, O2 after every op, reach
    measures, then the in-process late re-execution of every op's dependency closure
    (oracles O1-late / O3-late).  Returns (result dict, {op id: fingerprint})."""
    import fingerprint as F
    from node import apply_env, get_tracer

    apply_env(cfg)
    tracer = get_tracer(prefix)
    objs, base, kinds, fps = {}, {}, {}, {}
    records = []
    interrupted = set()
    usage = {}
    states = []
    probes = {}
    violation = None
    names_seen = {}
    prev_out = "start"
    last_reject_at = None
    byid = {op["id"]: op for op in ops}
    placed = []
    debug_ids = [] if os.environ.get("VERIF_DEBUG_IDS") else None

    def probe(name):
        probes[name] = probes.get(name, 0) + 1

    unseen = {}  # op id -> its record: results that have not been looked at yet (deferred observation)

    def first_look(j):
        rec_j = unseen.pop(j)
        try:
            fp_j = fp_result(byid[j], objs[j])
        except Exception as e:
            fp_j = {"kind": "?", "unobservable": type(e).__name__}
        fps[j] = fp_j
        base[j] = fp_j
        kinds[j] = fp_j.get("kind", "?") if isinstance(fp_j, dict) else "?"
        rec_j["fp"] = digest(fp_j)
        probe("result_first_looked_at_late")

    for idx, op in enumerate(ops):
        oid = op["id"]
        for u in op["uses"]:
            if u in unseen:
                first_look(u)  # an operand is looked at before it is used (the op may legitimately change it)
        missing = [u for u in op["uses"] if u not in objs]
        if missing:
            rec = {"i": oid, "kind": op["kind"], "outcome": "skipped:int" if any(u in interrupted for u in missing) else "skipped"}
            records.append(rec)
            prev_out = "skipped"
            continue
        flist = []
        for f in faults.get(oid, []):
            if "k" in f:
                k, how = f["k"], "frozen"
            else:
                e, how = est.estimate(op) if est is not None else (STATIC_LINES.get(op["kind"], 500), "static")
                e = max(1, e)
                k = e + 1 if f["frac"] >= 1.0 else 1 + int(f["frac"] * e)
                if f["kind"] == "interrupt" and f["frac"] >= 1.0:
                    k = e
            flist.append([k, f["kind"]])
            placed.append({"op": oid, "kind": f["kind"], "frac": f["frac"], "k": k, "how": how})
        defer = bool(op.get("late_look")) and op["kind"] in KEEP
        rec, res, fp = exec_one(op, objs, tracer, flist, tmpdir, observe=not defer)
        outcome = rec["outcome"]
        if est is not None and outcome != "faulted:interrupt" and not any(f[0] == "interrupt" for f in flist):
            est.learn(op, rec.get("lines", 0))
        if outcome == "faulted:interrupt":
            interrupted.add(oid)
        if outcome == "ok" and defer:
            objs[oid] = res
            unseen[oid] = rec
        elif outcome == "ok":
            fps[oid] = fp
            if debug_ids is not None:
                debug_ids.append(id(res) % 1000003)
            if op["kind"] in KEEP:
                objs[oid] = res
                base[oid] = fp
                kinds[oid] = fp.get("kind", "?") if isinstance(fp, dict) else "?"
        if op["kind"] == "forget":
            kinds.pop(op["a"]["target"], None)
            base.pop(op["a"]["target"], None)
        if op["kind"] == "recompile" and op["a"]["target"] in objs:
            # the one op that is meant to change its operand: re-baseline it (also after a failed
            # or interrupted recompile, about which the statement says nothing for the target itself)
            try:
                base[op["a"]["target"]] = fp_result({"kind": "?"}, objs[op["a"]["target"]])
            except Exception:
                pass
        records.append(rec)
        fired = rec.get("fired", [])

        # ---- reach measures
        for u in op["uses"]:
            uv = usage.setdefault(u, {})
            rl = role_of(op, u)
            uv[rl] = uv.get(rl, 0) + 1
            if last_reject_at is not None and sum(uv.values()) >= 2:
                probe("reject_between_two_uses")
            if rl == "blackbox" and uv[rl] >= 2:
                probe("object_wrapped_by_2plus_algorithms")
            if rl == "def" and uv[rl] >= 2:
                probe("callee_used_by_2plus_callers")
            if rl == "unbound" and uv[rl] >= 3:
                probe("unbound_bound_3plus")
            if rl == "unbound" and byid[u]["a"].get("defs"):
                probe("bind_of_unbound_with_defs")
                if uv[rl] >= 2:
                    probe("unbound_with_defs_bound_2plus")
            if kinds.get(u) == "LogicFun" and rl == "def" and uv[rl] >= 2:
                probe("retained_logicfun_reused")
        if op["kind"] in ("compile_str", "compile_callable"):
            nm = progs.fname(op["a"]["src"])
            d = digest(op["a"]["src"], 8)
            seen = names_seen.setdefault(nm, [])
            if seen and d not in seen:
                probe("same_name_other_body")
            if seen and d in seen:
                probe("same_name_same_body")
            if op["a"].get("ntwin"):
                probe("near_twin_" + ("accepted" if outcome == "ok" else "refused"))
                probe("near_twin:" + op["a"]["ntwin"])
            if nm in progs.LIB_GLOBAL_NAMES:
                probe("library_global_name_compiled")
                names_seen.setdefault("__lib__", []).append(oid)
            if d not in seen:
                seen.append(d)
        if names_seen.get("__lib__") and op["kind"] in ("truth_table", "compile_str", "header") and oid not in names_seen["__lib__"]:
            probe("op_after_library_global_name")
        if op["kind"] == "oraclize" and outcome == "ok" and base.get(op["a"]["target"], {}).get("name") == op["a"].get("name", "oracle"):
            probe("oraclize_of_function_with_the_oracle_name")
        if op["kind"] == "bind" and cfg.get("ipykernel"):
            probe("notebook_marker_with_bind")
        if cfg.get("cache") == "off" and op["kind"] == "compile_str" and op["a"].get("defs"):
            probe("cache_off_with_callee_compile")
        if op["kind"] == "forget":
            probe("forget")
        for f in fired:
            probe("fired_" + f[0])
            if f[1] != "<between-ops>":
                probe("fired_in_op_" + f[0])
                probe("fired_in:" + f[1].split("/")[0])
        if outcome.startswith("rejected"):
            last_reject_at = idx
        if "again_of" in op:
            probe("again")
        st = digest([sorted(kinds.values()), sorted(sorted(v.items()) for v in usage.values() if v)[-6:], prev_out.split(":")[0], op["kind"]], 12)
        states.append(st)
        prev_out = outcome

        # ---- O2: nothing but the op's own fresh result may have changed
        for j, o in objs.items():
            if j == oid or j in unseen:
                continue
            try:
                cur = fp_result({"kind": "?"}, o)
            except Exception as e:  # an object that can no longer be observed is damaged
                cur = {"kind": base[j].get("kind"), "unobservable": type(e).__name__}
            if cur != base[j]:
                violation = {
                    "oracle": "O2", "op": oid, "op_kind": _okind(op),
                    "victim": j, "victim_kind": base[j].get("kind"), "role": role_of(op, j),
                    "changed": F.changed_fields(base[j], cur), "outcome": outcome, "before": base[j], "after": cur,
                }
                break
        if violation:
            break
    for j in sorted(unseen):
        if j in objs:
            first_look(j)
        else:
            unseen.pop(j)

    late_done = {}
    late_ops = 0
    late_cmp = 0
    if violation is None:
        # ---- late re-execution: every op's closure again, on fresh objects, in this same
        # (by now well used) process; must reproduce what the history saw
        cap = 4 * len(ops) + 20
        hrec = {r["i"]: r for r in records}
        bad = lambda j: hrec.get(j, {"outcome": "skipped"})["outcome"].startswith(("faulted", "skipped"))
        # in REVERSE order of the history: every closure then has another immediate predecessor
        # than it had in the history (residue that only affects the very next call would otherwise
        # be reproduced faithfully and go unseen)
        for op in reversed(ops):
            k = op["id"]
            if k in late_done or op["kind"] == "forget" or bad(k):
                continue
            cl = closure(byid, k)
            if any(bad(j) for j in cl):
                continue
            if late_ops + len(cl) > cap:
                break
            o2 = {}
            for p, j in enumerate(cl):
                opj = byid[j]
                if [u for u in opj["uses"] if u not in o2]:
                    r, res, fp = {"i": j, "kind": opj["kind"], "outcome": "skipped"}, None, None
                else:
                    r, res, fp = exec_one(opj, o2, None, None, tmpdir)
                    if r["outcome"] == "ok" and opj["kind"] in KEEP:
                        o2[j] = res
                late_ops += 1
                if j not in late_done and closure(byid, j) == cl[: p + 1]:
                    late_done[j] = r["outcome"]
                    late_cmp += 1
                    v = _cmp(hrec[j], fps.get(j), r, fp, opj, True)
                    if v is not None and (violation is None or v["op"] < violation["op"]):
                        violation = v
            if violation is not None:
                break
    out = {"records": records, "violation": violation, "states": states, "probes": probes, "late_ops": late_ops, "late_compared": late_cmp, "placed": placed, "ids": debug_ids}
    return out, fps


def _okind(op):
    return op["kind"] + (":" + op["a"]["cls"] if op["kind"] == "algo" else "")


# ------------------------------------------------------------------ orchestration


def closure(byid, k):
    seen, stack = set(), [k]
    while stack:
        x = stack.pop()
        if x in seen:
            continue
        seen.add(x)
        stack.extend(byid[x]["uses"])
    return sorted(seen)


def norm_closure(byid, cl):
    """closure with op ids replaced by positions: the memo key must not depend on where
    in a history the closure sat"""
    pos = {j: p for p, j in enumerate(cl)}

    def remap(a):
        a = dict(a)
        if "target" in a:
            a["target"] = pos[a["target"]]
        if "defs" in a:
            a["defs"] = [pos[d] for d in a["defs"]]
        if "other" in a:
            a["other"] = pos[a["other"]]
        return a

    return [{"id": p, "kind": byid[j]["kind"], "a": remap(byid[j]["a"]), "uses": sorted(pos[u] for u in byid[j]["uses"]), "s": 0} for p, j in enumerate(cl)]


def env_key(cfg):
    # the global random state is not part of the key on purpose: a result that depends on
    # where in the random stream the process is, depends on earlier work
    return [bool(cfg.get("ipykernel", False))]


def ref_cfg(cfg):
    return {"ipykernel": cfg.get("ipykernel", False), "rseed": cfg.get("rseed", 0)}


def reference_for(plan, ctx, k, byid, table=None):
    """reference record of op k: its dependency closure, alone, in a fork of the pristine zygote"""
    cfg = plan["cfg"]
    cl = closure(byid, k)
    nops = norm_closure(byid, cl)
    key = digest([env_key(cfg), nops], 24)
    if "canary" in byid[k] and cfg.get("ipykernel") and not any(o["kind"] == "bind" for o in nops):
        # the table holds a notebook-marker variant only for closures that contain a bind (the marker
        # is read by bind() alone); the same policy applies when references are forked (replay)
        return None, None
    if table is not None:
        # batch mode: references come from the table computed up front, never from a fork here
        if key in table:
            ctx.memo_hits += 1
            return table[key], None
        if "canary" in byid[k]:
            return None, None
    if key in ctx.memo:
        ctx.memo_hits += 1
        return ctx.memo[key], None
    ctx.memo_misses += 1
    res = ctx.pristine("m_c10", "run_ref", [ref_cfg(cfg), nops, ctx.src_prefix])
    if "_timeout" in res or "_crash" in res:
        return None, res
    recs = res["records"]
    out = None
    for p, r in enumerate(recs):
        j = cl[p]
        if closure(byid, j) == cl[: p + 1]:
            r2 = dict(r)
            r2.pop("i", None)
            kj = digest([env_key(cfg), norm_closure(byid, cl[: p + 1])], 24)
            if len(ctx.memo) < 5000:
                ctx.memo[kj] = r2
            if j == k:
                out = r2
    if out is None:
        out = dict(recs[-1])
        out.pop("i", None)
    return out, None


def run_segment(plan, ctx, detail=False, table=None):
    """one history, executed in the calling (lifetime) process"""
    import gc
    import shutil

    cfg, ops = plan["cfg"], plan["ops"]
    byid = {op["id"]: op for op in ops}
    refs = {}
    for k in plan.get("pristine", []):
        if k not in byid:
            continue
        r, err = reference_for(plan, ctx, k, byid, table)
        if err is not None:
            return {"status": "timeout" if "_timeout" in err else "harness_error", "where": "reference", "err": err}
        if r is not None:
            refs[k] = r
    faults = {}
    planned = {}
    for f in plan.get("faults", []):
        faults.setdefault(f["op"], []).append(f)
        planned[f["kind"]] = planned.get(f["kind"], 0) + 1
    tmpdir = ctx.tmpdir()
    try:
        hres, fps = run_history(cfg, ops, faults, ctx.src_prefix, tmpdir, Estimator(ctx, byid))
    finally:
        shutil.rmtree(tmpdir, ignore_errors=True)
        for mname in [m for m in sys.modules if m.startswith("qv_m")]:
            sys.modules.pop(mname, None)
    recs = hres["records"]
    violation = hres.get("violation")
    compared = {"pristine": 0, "late": hres.get("late_compared", 0)}
    for h in recs:
        oid = h["i"]
        if violation is not None and violation["op"] < oid:
            break
        if h["outcome"].startswith("faulted") or h["outcome"] == "skipped:int" or oid not in refs:
            continue
        compared["pristine"] += 1
        v = _cmp(h, fps.get(oid), refs[oid], refs[oid].get("fpd"), byid[oid], False)
        if v is not None and (violation is None or v["op"] < violation["op"] or (v["op"] == violation["op"] and violation["oracle"].endswith("-late"))):
            violation = v
            break
    fps = None
    gc.collect()
    strip = lambda rr: {k: v for k, v in rr.items() if k not in ("fpd", "msg")}
    dg = digest([[strip(h) for h in recs], [[k, strip(refs[k])] for k in sorted(refs)], _vclass(violation), hres.get("late_compared")])
    fired = {}
    opk = {}
    outc = {}
    for h in recs:
        for f in h.get("fired", []):
            fired[f[0]] = fired.get(f[0], 0) + 1
        opk[h["kind"]] = opk.get(h["kind"], 0) + 1
        oc = h["outcome"].split(":")[0]
        outc[oc] = outc.get(oc, 0) + 1
    out = {
        "status": "ok", "digest": dg, "violation": violation, "steps": len(recs), "placed": hres.get("placed", []),
        "ops": [[h["i"], h["outcome"], h.get("fp")] for h in recs],
        "stats": {"ops": opk, "outcomes": outc, "faults_planned": planned, "faults_fired": fired, "probes": hres.get("probes", {}), "states": sorted(set(hres.get("states", []))), "arm": cfg["arm"],
                  "lines": sum(h.get("lines", 0) for h in recs), "late_ops": hres.get("late_ops", 0), "compared": compared,
                  "fired_sites": sorted({f"{f[1]}:{f[2]}" for h in recs for f in h.get("fired", []) if f[1] != "<between-ops>"})},
    }
    if detail:
        out["records"] = [strip(h) for h in recs]
    if os.environ.get("VERIF_DEBUG_IDS"):
        out["ids"] = hres.get("ids")
    return out


def _o3_class(h, r):
    if r == "ok":
        return "ok->" + h
    if h == "ok":
        return r + "->ok"
    return r + "->" + h


def _vclass(v):
    if v is None:
        return None
    return [v["oracle"], v["op_kind"], v.get("role", ""), sorted(v.get("changed", []))]


def violation_class(v):
    return _vclass(v)


def run_closure_only(plan, k, ctx):
    """for the fork == fresh-interpreter cross-check: closure of op k, executed in this process"""
    byid = {op["id"]: op for op in plan["ops"]}
    cl = closure(byid, k)
    nops = norm_closure(byid, cl)
    res = ctx.pristine("m_c10", "run_ref", [ref_cfg(plan["cfg"]), nops, ctx.src_prefix])
    if "records" in res:
        res = {"status": "ok", "records": [{k: v for k, v in r.items() if k != "fpd"} for r in res["records"]]}
    return res


# ------------------------------------------------------------------ shrinking support


def dependents(plan, removed):
    """close a removal set under dependency"""
    bad = set(removed)
    changed = True
    while changed:
        changed = False
        for op in plan["ops"]:
            if op["id"] not in bad and any(u in bad for u in op["uses"]):
                bad.add(op["id"])
                changed = True
    return bad


def without_ops(plan, removed):
    bad = dependents(plan, removed)
    p = dict(plan)
    p["ops"] = [op for op in plan["ops"] if op["id"] not in bad]
    p["faults"] = [f for f in plan.get("faults", []) if f["op"] not in bad]
    p["pristine"] = [k for k in plan.get("pristine", []) if k not in bad]
    return p


def simplify_candidates(plan):
    """plans that are simpler in something other than the op list"""
    out = []
    for i in range(len(plan.get("faults", []))):
        p = dict(plan)
        p["faults"] = plan["faults"][:i] + plan["faults"][i + 1 :]
        out.append(p)
    cfg = plan["cfg"]
    for key, dflt in (("ipykernel", False), ("rseed", 0)):
        if cfg.get(key) != dflt:
            p = dict(plan)
            p["cfg"] = dict(cfg)
            p["cfg"][key] = dflt
            out.append(p)
    # simpler program bodies
    for idx, op in enumerate(plan["ops"]):
        if op["kind"] in ("compile_str", "compile_callable") and not op["a"].get("defs") and "Parameter[" not in op["a"]["src"]:
            nm = progs.fname(op["a"]["src"])
            simple = f"def {nm}(a: bool) -> bool:\n    return a\n"
            if op["a"]["src"] != simple and not any(op["id"] in o["uses"] for o in plan["ops"]):
                p = dict(plan)
                p["ops"] = list(plan["ops"])
                o2 = dict(op)
                o2["a"] = dict(op["a"], src=simple)
                p["ops"][idx] = o2
                out.append(p)
        for k2, dv in (("opt", "default"), ("uncompute", True), ("to_compile", True)):
            if k2 in op["a"] and op["a"][k2] != dv:
                p = dict(plan)
                p["ops"] = list(plan["ops"])
                o2 = dict(op)
                o2["a"] = dict(op["a"])
                o2["a"][k2] = dv
                p["ops"][idx] = o2
                out.append(p)
    return out


def describe(plan):
    """one line per op, for humans reading a replay file"""
    out = []
    for op in plan["ops"]:
        a = op["a"]
        if op["kind"] in ("compile_str", "compile_callable"):
            d = f"{op['kind']}[{a['via']}] {a['src'].strip().splitlines()[0][:70]} defs={a.get('defs')} opt={a['opt']} unc={a['uncompute']} tc={a['to_compile']}"
        else:
            d = f"{op['kind']} " + canon({k: v for k, v in a.items()})
        out.append(f"#{op['id']} s{op['s']} {d}")
    for f in plan.get("faults", []):
        out.append(f"fault {f['kind']} in op #{f['op']} at {f['frac']}")
    return out


def nontrivial_key(plan, result):
    """(is_nontrivial, distinct key) for the evidence counters (DESIGN §2.7, §3.5)"""
    shape = []
    seen_operands = set()
    dep = False
    for op in plan["ops"]:
        shape.append([op["kind"], op["a"].get("cls"), [op["id"] - u for u in op["uses"]], op["a"].get("via"), "again_of" in op])
        for u in op["uses"]:
            if u in seen_operands:
                dep = True
            seen_operands.add(u)
        if "again_of" in op:
            dep = True
    pr = (result or {}).get("stats", {}).get("probes", {})
    if pr.get("same_name_other_body") or any(k.startswith("fired_") for k in pr):
        dep = True
    if (result or {}).get("stats", {}).get("outcomes", {}).get("rejected"):
        dep = True
    return dep, digest([shape, [[f["op"], f["kind"]] for f in plan.get("faults", [])]], 16)


def crosscheck_jobs(plans, count):
    """(plan, extra) pairs: the closure of the last op of the first `count` plans"""
    out = []
    for p in plans[: count * 3]:
        if p["ops"] and len(out) < count:
            out.append((p, {"k": p["ops"][-1]["id"]}))
    return out


RULE = (
    "history = seeded sequence of public-API operations (compile from string/callable, defs=, to_logicfun, bind, oraclize, "
    "Grover/DeutschJozsa/Simon/BernsteinVazirani, secret_oracle, export, decompile, compose (circuit as operand of append/+/+=/repeat/copy), truth_table, header, repr, again) over a pool of "
    "corpus/grammar/renamed programs, with seeded faults (reject / sympy-cache flush / gc / interrupt at the k-th library source line). "
    "non-trivial = contains a dependent pair: an operand used by two ops, a name compiled with two bodies, an op re-issued (again), "
    "an op after a rejection, or a fault that fired inside an op. distinct = by sequence of (op kind, class, operand distances, entry point) "
    "plus fault placement."
)
COMPONENTS = {
    "real": ["all of qlasskit from the tree under test", "sympy 1.12", "qiskit / cirq / qutip exporter back ends", "CPython 3.12 (fork per history and per reference closure, ASLR off)"],
    "stub": ["ipykernel marker module (empty module in sys.modules)", "per-history temp directory holding the modules of compile_callable"],
}
ASSUMPTIONS = [
    "fork of a parent that has only imported the library == fresh interpreter (cross-checked on a sample every batch)",
    "hash seed, sympy cache size and ASLR are held equal between a history and its references (C10 is about earlier work in the process, not about another process's hash seed)",
    "an interrupted operation's own result and exception type are never inspected",
    "exploration: a clean batch is evidence, not proof",
]
