"""Canonical observable state of library objects (DESIGN §2.4, §3.1).

A fingerprint is a JSON-able dict; two objects are "the same" for C10/C08/C14
iff their fingerprints are equal.  No addresses, ids, timestamps or auto-
generated third-party names enter a fingerprint.  The functions here use the
library only through attribute reads (never through its helpers) so that a
damaged library cannot hide damage from the observer.
"""
import ast
import typing


def fp_type(t):
    if t is bool:
        return "bool"
    args = typing.get_args(t)
    if args:
        nm = getattr(t, "__name__", None) or str(getattr(t, "__origin__", t))
        return [nm] + [fp_type(a) for a in args]
    if hasattr(t, "__name__"):
        return t.__name__
    return repr(t)


def fp_expr(e):
    """canonical walk of a sympy expression: exact syntax, argument order kept"""
    if isinstance(e, str):  # truth_table() leaves strings as names in some paths
        return "str:" + e
    if isinstance(e, bool):
        return e
    nm = type(e).__name__
    if nm in ("Symbol", "Dummy"):
        return "$" + e.name
    args = getattr(e, "args", ())
    if not args:
        return nm
    return [nm] + [fp_expr(a) for a in args]


def fp_param(p):
    if p is None or isinstance(p, (str, bool, int)):
        return p
    if isinstance(p, float):
        return repr(p)
    return repr(p)


def fp_arg(a):
    if a is None:
        return None
    return {"name": a.name, "type": fp_type(a.ttype), "bitvec": list(a.bitvec)}


def fp_gates(gl):
    return [[g.name, list(w), fp_param(p)] for (g, w, p) in gl]


def fp_circuit(qc):
    if qc is None:
        return None
    return {
        "cls": type(qc).__name__,
        "name": qc.name,
        "num_qubits": qc.num_qubits,
        "gates": fp_gates(qc.gates),
        "qubit_map": [[k, v] for k, v in qc.qubit_map.items()],
        # the bookkeeping that decides what a later uncompute() / get_free_ancilla() on this circuit does
        "internal": {
            "gates_computed": fp_gates(getattr(qc, "gates_computed", [])),
            **{f: sorted(getattr(qc, f)) for f in ("ancilla_lst", "free_ancilla_lst", "marked_ancillas") if hasattr(qc, f)},
        },
    }


def _try(f):
    try:
        return f()
    except Exception as e:  # observable as "raises"
        return "raises:" + type(e).__name__


def fp_exprs(exps):
    return [[fp_expr(s), fp_expr(e)] for (s, e) in exps]


def fp_qlassf(qf):
    qc = getattr(qf, "_qcircuit", None)
    d = {
        "kind": "QlassF",
        "name": qf.name,
        "args": [fp_arg(a) for a in qf.args],
        "returns": fp_arg(qf.returns),
        "expressions": fp_exprs(qf.expressions),
        "circuit": fp_circuit(qc),
        "input_qubits": _try(lambda: list(qf.input_qubits)),
    }
    if qc is not None:
        d["output_qubits"] = _try(lambda: list(qf.output_qubits))
    return d


def fp_unbound(u):
    return {
        "kind": "UnboundQlassf",
        "ast": ast.dump(u.fun_ast),
        "parameters": list(u.parameters.keys()),
    }


def fp_logicfun(lf):
    return {
        "kind": "LogicFun",
        "name": lf[0],
        "args": [fp_arg(a) for a in lf[1]],
        "returns": fp_arg(lf[2]),
        "expressions": fp_exprs(lf[3]),
    }


def fp_algo(al):
    d = {
        "kind": type(al).__name__,
        "circuit": fp_circuit(al._qcircuit),
        "output_qubits": _try(lambda: list(al.output_qubits)),
    }
    for attr in ("n_iterations", "n_matching", "search_space_size"):
        if hasattr(al, attr):
            d[attr] = getattr(al, attr)
    return d


def fp_qiskit(obj):
    """instruction sequence only: qiskit's auto names (circuit-<n>) are its own global counter"""

    def data_of(qc):
        out = []
        for inst in qc.data:
            op = inst.operation
            out.append([op.name, [qc.find_bit(q).index for q in inst.qubits], [fp_param(float(x)) if not isinstance(x, str) else x for x in op.params], getattr(op, "label", None)])
        return out

    if hasattr(obj, "data"):
        return {"kind": "qiskit.circuit", "num_qubits": obj.num_qubits, "data": data_of(obj)}
    return {
        "kind": "qiskit.gate",
        "name": obj.name,
        "num_qubits": obj.num_qubits,
        "definition": data_of(obj.definition) if obj.definition is not None else None,
    }


def fp_cirq(obj):
    import cirq

    if isinstance(obj, cirq.Circuit):
        ops = []
        for op in obj.all_operations():
            ops.append({"gate": type(op.gate).__name__, "qubits": [str(q) for q in op.qubits], "decomp": [str(o) for o in cirq.decompose_once(op)]})
        return {"kind": "cirq.circuit", "ops": ops}
    g = obj()
    n = g.num_qubits()
    qs = cirq.LineQubit.range(n)
    return {"kind": "cirq.gate", "name": obj.__name__, "n": n, "decomp": [str(o) for o in g._decompose_(qs)]}


def fp_export(res, fw):
    if isinstance(res, str):
        return {"kind": "text", "text": res}
    if fw == "qiskit":
        return fp_qiskit(res)
    if fw == "cirq":
        return fp_cirq(res)
    if fw == "sympy":
        import sympy

        return {"kind": "sympy", "srepr": sympy.srepr(res)}
    if fw == "qutip":
        return {"kind": "qutip", "N": res.N, "gates": [[g.name, g.targets, g.controls, fp_param(g.arg_value)] for g in res.gates]}
    return {"kind": "other", "repr": repr(res)}


def fp_decompiled(res):
    return {
        "kind": "DecompilerResults",
        "sections": [{"index": list(s.index), "gates": fp_gates(s.gates), "expressions": fp_exprs(s.expressions)} for s in res],
    }


def fp_table(tt):
    return {"kind": "table", "rows": [[fp_expr(c) for c in row] for row in tt]}


def fp_any(obj):
    """fingerprint by runtime class name (no library import needed here)"""
    if obj is None:
        return None
    nm = type(obj).__name__
    if nm == "QlassF":
        return fp_qlassf(obj)
    if nm == "UnboundQlassf":
        return fp_unbound(obj)
    if nm in ("QCircuit", "QCircuitEnhanced"):
        return fp_circuit(obj)
    if nm in ("Grover", "DeutschJozsa", "Simon", "BernsteinVazirani"):
        return fp_algo(obj)
    if isinstance(obj, tuple) and len(obj) == 4 and isinstance(obj[0], str):
        return fp_logicfun(obj)
    if isinstance(obj, dict) and "kind" in obj:
        return obj  # already a fingerprint (value results: text, table, ...)
    return {"kind": "repr", "repr": repr(obj)}


def changed_fields(a, b, prefix=""):
    """sorted list of dotted top-level paths at which two fingerprints differ (depth <= 2)"""
    if a == b:
        return []
    if not (isinstance(a, dict) and isinstance(b, dict)):
        return [prefix.rstrip(".") or "value"]
    out = []
    for k in sorted(set(a) | set(b)):
        va, vb = a.get(k), b.get(k)
        if va != vb:
            if isinstance(va, dict) and isinstance(vb, dict) and prefix == "":
                out.extend(changed_fields(va, vb, k + "."))
            else:
                out.append(prefix + k)
    return out
