"""C14 — circuit composition operators compose: circuit-pool machine (DESIGN §5).

Real QCircuit / QCircuitEnhanced objects are driven by a seeded history of composition
operators and builder calls on *any* pool member, mirrored by a trivial reference model
(qubit count + expected unitary obtained by the model's own composition rule), and checked
after every step over the whole pool:
  A0  an operator that the statement covers completes (does not raise) on well-formed operands
  A1  the unitary of the operator's target/result equals the model's
  A2  every pool entry that was not the target keeps its gate list, qubit count and qubit map
  A3  (follows from re-evaluating A1+A2 after every later mutation of any entry)
"""
import cmath
import math

import progs
from core import canon, digest, rng_for, wchoice

PROP = "C14"
SEGMENTS = {"quick": 120, "thorough": 300}
MAX_Q = 5
MAX_POOL = 8
MAX_GATES = 1500
INTERRUPTIBLE = ("append_circuit", "add", "iadd", "iadd_gate", "repeat", "copy", "remove_identities", "qft_iqft")

ONE_Q = ["I", "X", "Y", "Z", "H", "S", "T", "P"]
TWO_Q = ["CX", "CZ", "CP", "SWAP"]
PARAM = {"P", "CP", "MCtrlP"}
MULTI = ("MCX", "MCZ", "MCtrlX", "MCtrlH", "MCtrlY", "MCtrlP")  # MCX is its own class; the others are MCtrl over a base gate
ANGLES = [math.pi, math.pi / 2, math.pi / 4, -math.pi / 2, 0.3, 2 * math.pi / 8, 0.12345, -0.3, 7.0, 1e-3, 3.14159, -math.pi / 4]

# ------------------------------------------------------------------ matrices (model and observer share them)


def _np():
    import numpy as np

    return np


def base_matrix(name, param):
    np = _np()
    s2 = 1 / math.sqrt(2)
    if name == "I":
        return np.eye(2, dtype=complex)
    if name == "X":
        return np.array([[0, 1], [1, 0]], dtype=complex)
    if name == "Y":
        return np.array([[0, -1j], [1j, 0]], dtype=complex)
    if name == "Z":
        return np.array([[1, 0], [0, -1]], dtype=complex)
    if name == "H":
        return np.array([[s2, s2], [s2, -s2]], dtype=complex)
    if name == "S":
        return np.array([[1, 0], [0, 1j]], dtype=complex)
    if name == "T":
        return np.array([[1, 0], [0, cmath.exp(1j * math.pi / 4)]], dtype=complex)
    if name == "P":
        return np.array([[1, 0], [0, cmath.exp(1j * (param or 0.0))]], dtype=complex)
    if name == "SWAP":
        return np.array([[1, 0, 0, 0], [0, 0, 1, 0], [0, 1, 0, 0], [0, 0, 0, 1]], dtype=complex)
    raise ValueError("no matrix for gate " + name)


def controlled(m, nctrl):
    np = _np()
    k = m.shape[0]
    dim = k * (2 ** nctrl)
    out = np.eye(dim, dtype=complex)
    out[dim - k :, dim - k :] = m
    return out


def spec_matrix(spec):
    """matrix of a plan-level gate spec; wires order = controls then targets, most significant first"""
    g = spec["g"]
    p = spec.get("p")
    if g in ("CX", "CCX", "MCX"):
        return controlled(base_matrix("X", None), len(spec["w"]) - 1)
    if g in ("CZ", "MCZ"):
        return controlled(base_matrix("Z", None), len(spec["w"]) - 1)
    if g in ("MCtrlX", "MCtrlH", "MCtrlY"):
        return controlled(base_matrix(g[-1], None), len(spec["w"]) - 1)
    if g == "MCtrlP":
        return controlled(base_matrix("P", p), len(spec["w"]) - 1)
    if g == "CP":
        return controlled(base_matrix("P", p), 1)
    return base_matrix(g, p)


def obj_matrix(g, p):
    """matrix of a library gate object (by class name and attributes only)"""
    nm = type(g).__name__
    if hasattr(g, "n_controls") and hasattr(g, "gate"):
        return controlled(obj_matrix(g.gate, p), g.n_controls)
    if nm == "Swap":
        return base_matrix("SWAP", None)
    return base_matrix(nm, p)


class GateViewsDisagree(Exception):
    pass


_BASE_NAMES = ("I", "X", "Y", "Z", "H", "S", "T", "P", "SWAP")


def name_matrix(name, p):
    """matrix of a gate as its NAME says (what the text exporters, the decompiler and gate_stats go by):
    'C' * controls + base name"""
    k = 0
    while name not in _BASE_NAMES and name.startswith("C"):
        name, k = name[1:], k + 1
    m = base_matrix(name, p)
    return controlled(m, k) if k else m


def checked_matrix(g, p):
    """the gate's matrix by class and attributes (what the qiskit exporter goes by) -- which must be the matrix its name
    stands for: a gate whose two faces disagree has no single action"""
    np = _np()
    m = obj_matrix(g, p)
    nm = getattr(g, "name", None)
    if isinstance(nm, str):
        try:
            m2 = name_matrix(nm, p)
        except ValueError:
            raise GateViewsDisagree(f"{type(g).__name__} is called {nm!r}")
        if m2.shape != m.shape or not np.allclose(m, m2):
            raise GateViewsDisagree(f"{type(g).__name__} (controls={getattr(g, 'n_controls', 0)}) is called {nm!r}")
        if getattr(g, "n_qubits", None) is not None and 2 ** g.n_qubits != m.shape[0]:
            raise GateViewsDisagree(f"{type(g).__name__} called {nm!r} says n_qubits={g.n_qubits}")
    return m


def apply(U, m, wires, n):
    """U <- lift(m, wires) @ U, wire i = axis i of the 2^n index (axis 0 most significant)"""
    np = _np()
    k = len(wires)
    dim = 2 ** n
    t = U.reshape([2] * n + [dim])
    mt = m.reshape([2] * (2 * k))
    t = np.tensordot(mt, t, axes=(list(range(k, 2 * k)), list(wires)))
    # tensordot puts the k new axes first; move them back to `wires`
    t = np.moveaxis(t, list(range(k)), list(wires))
    return t.reshape(dim, dim)


def unitary_of_specs(specs, n):
    np = _np()
    U = np.eye(2 ** n, dtype=complex)
    for s in specs:
        if s["g"] == "BARRIER":
            continue
        U = apply(U, spec_matrix(s), s["w"], n)
    return U


def unitary_of_circuit(qc):
    np = _np()
    n = qc.num_qubits
    U = np.eye(2 ** n, dtype=complex)
    for g, w, p in qc.gates:
        if type(g).__name__ in ("Barrier", "NopGate") or getattr(g, "n_qubits", 1) == 0:
            continue
        U = apply(U, checked_matrix(g, p), list(w), n)
    return U


def lift(Ub, qubits, n):
    """U_b acting on `qubits` (b's wire i -> qubits[i]) of an n-qubit register"""
    np = _np()
    return apply(np.eye(2 ** n, dtype=complex), Ub, list(qubits), n)


def widen(U, n_old, n_new):
    np = _np()
    return np.kron(U, np.eye(2 ** (n_new - n_old), dtype=complex))


def close(A, B):
    np = _np()
    return A.shape == B.shape and float(np.max(np.abs(A - B))) < 1e-9


# ------------------------------------------------------------------ generation

CIRC_PROGS = [p for p in progs.OK if p.get("qubits", 99) <= MAX_Q and p.get("gates", 0) >= 1 and p["t"] < 0.03]


def rand_spec(r, n, gset):
    cands = [g for g in gset if (g in ONE_Q) or (g in TWO_Q and n >= 2) or (g == "CCX" and n >= 3) or (g in MULTI and n >= 2) or g == "BARRIER"]
    g = r.choice(cands)
    if g == "BARRIER":
        return {"g": g, "w": []}
    if g in ONE_Q:
        k = 1
    elif g in TWO_Q:
        k = 2
    elif g == "CCX":
        k = 3
    else:
        k = r.randint(2, min(n, 4))
    s = {"g": g, "w": r.sample(range(n), k)}
    if g in PARAM:
        s["p"] = r.choice(ANGLES)
    return s


class Gen:
    def __init__(self, seed, tier):
        self.seed, self.tier = seed, tier
        r = self.r = rng_for(seed, "c14")
        allg = ONE_Q + TWO_Q + ["CCX", "BARRIER"] + list(MULTI)
        # swarm: a random subset of the gate set; sometimes only a couple of gates so that
        # identical adjacent pairs are the norm
        if r.random() < 0.3:
            self.gset = r.sample(allg, r.randint(1, 3))
            if all(g == "BARRIER" for g in self.gset):
                self.gset.append("X")
        else:
            self.gset = [g for g in allg if r.random() < 0.7] or ["X", "H"]
        if not any(g in ONE_Q for g in self.gset):
            self.gset.append(r.choice(ONE_Q))
        x_arm = r.random()
        self.cfg = {
            "arm": "natural-faults" if x_arm < 0.3 else ("interrupt" if x_arm < 0.5 else "clean"),
            "nops": r.randint(6, 40),
            "enh": r.choice([0.2, 0.5, 0.8]),
            "twice": r.choice([0.1, 0.3, 0.6]),
            "gset": self.gset,
            "rseed": r.randrange(1 << 16),
        }
        base_w = {"new": 2.0, "random": 0.6, "from_qlassf": 0.5, "append_circuit": 3.0, "add": 2.5, "iadd": 2.5, "iadd_gate": 1.0, "repeat": 2.0,
                  "copy": 2.0, "gate": 4.0, "remove_identities": 2.0, "qft_iqft": 1.5, "add_qubit": 0.5, "forget": 0.5, "opaque": 1.5}
        self.w = {k: v * r.choice([0, 0.5, 1, 1, 2, 3]) for k, v in sorted(base_w.items())}
        self.w["new"] = max(self.w["new"], 1.0)
        self.ops = []
        self.pool = []  # {id, n, enh, derived}
        self.last_pair = None

    def add(self, kind, a, uses, res=None):
        oid = len(self.ops)
        # the widths the generator assumed for the operands: an op whose operand has another width
        # at run time (get_free_ancilla may or may not add a qubit) is skipped, not judged
        widths = {str(e["id"]): e["n"] for e in self.pool if e["id"] in uses}
        self.ops.append({"id": oid, "kind": kind, "a": a, "uses": sorted(set(uses)), "widths": widths})
        if res is not None:
            res["id"] = oid
            self.pool.append(res)
            if len(self.pool) > MAX_POOL:
                self.pool.pop(0)
        return oid

    def pick(self, pred=lambda e: True):
        c = [e for e in self.pool if pred(e) and e["n"] <= MAX_Q + 1]
        return self.r.choice(c) if c else None

    def b_new(self):
        r = self.r
        n = r.randint(1, MAX_Q)
        specs = [rand_spec(r, n, self.gset) for _ in range(r.randint(0, 6))]
        enh = r.random() < self.cfg["enh"]
        arg = {"n": n, "enh": enh, "gates": specs}
        if enh and n >= 2 and r.random() < 0.4:
            arg["anc"] = r.randint(1, n - 1)  # the last `anc` qubits are created with add_ancilla()
        elif r.random() < 0.3:
            # user-given qubit names from a tiny pool: different circuits share names, at the same or at other indices
            arg["names"] = r.sample(["a", "b", "c", "t", "x.0", "x.1", "anc_0"], n)
        self.add("new", arg, [], {"n": n, "enh": enh, "anc": "anc" in arg})
        return True

    def then_ri(self, e):
        """a composed enhanced circuit with ancillas: half of the time remove_identities follows at once, which is where
        the later-uncompute relation is evaluated (what composition did to the bookkeeping shows there)"""
        if e is not None and e.get("enh") and e.get("anc") and self.r.random() < 0.5:
            self.add("remove_identities", {"target": e["id"]}, [e["id"]])

    def b_random(self):
        r = self.r
        n = r.randint(3, MAX_Q)
        self.add("random", {"n": n, "depth": r.randint(1, 8), "rseed": r.randrange(1 << 16)}, [], {"n": n, "enh": False})
        return True

    def b_from_qlassf(self):
        r = self.r
        if not CIRC_PROGS:
            return False
        p = r.choice(CIRC_PROGS)
        self.add("from_qlassf", {"src": p["src"]}, [], {"n": p["qubits"], "enh": True})
        return True

    def two(self):
        """(target, other) with n_other <= n_target; biased to repeat the previous pair"""
        r = self.r
        if self.last_pair and r.random() < self.cfg["twice"]:
            ids = {e["id"]: e for e in self.pool}
            if self.last_pair[0] in ids and self.last_pair[1] in ids and ids[self.last_pair[1]]["n"] <= ids[self.last_pair[0]]["n"]:
                return ids[self.last_pair[0]], ids[self.last_pair[1]]
        a = self.pick()
        if a is None:
            return None, None
        b = self.pick(lambda e: e["n"] <= a["n"])
        return a, b

    def b_append_circuit(self):
        r = self.r
        a, b = self.two()
        if a is None or b is None:
            return False
        if self.cfg["arm"] == "natural-faults" and r.random() < 0.25:
            # F1: wider other, or a qubits list of the wrong length
            wide = self.pick(lambda e: e["n"] > a["n"])
            if wide is not None and r.random() < 0.5:
                self.add("append_circuit", {"target": a["id"], "other": wide["id"], "qubits": list(range(wide["n"])), "fault": "wider"}, [a["id"], wide["id"]])
                return True
            q = r.sample(range(a["n"]), max(0, min(a["n"], b["n"] + r.choice([-1, 1]))))
            if len(q) != b["n"]:
                self.add("append_circuit", {"target": a["id"], "other": b["id"], "qubits": q, "fault": "length"}, [a["id"], b["id"]])
                return True
        q = r.sample(range(a["n"]), b["n"])
        self.add("append_circuit", {"target": a["id"], "other": b["id"], "qubits": q}, [a["id"], b["id"]])
        self.last_pair = (a["id"], b["id"])
        self.then_ri(a)
        return True

    def b_add(self):
        a, b = self.two()
        if a is None or b is None:
            return False
        res = {"n": a["n"], "enh": a["enh"], "anc": a.get("anc")}
        self.add("add", {"target": a["id"], "other": b["id"]}, [a["id"], b["id"]], res)
        self.then_ri(res)
        return True

    def b_iadd(self):
        a, b = self.two()
        if a is None or b is None:
            return False
        self.add("iadd", {"target": a["id"], "other": b["id"]}, [a["id"], b["id"]])
        self.last_pair = (a["id"], b["id"])
        self.then_ri(a)
        return True

    def b_iadd_gate(self):
        a = self.pick()
        if a is None:
            return False
        s = rand_spec(self.r, a["n"], [g for g in self.gset if g != "BARRIER"] or ["X"])
        # form: one application, or the SAME gate object applied twice (what uncomputation and
        # appending one circuit twice produce), optionally with a barrier between / before
        form = self.r.choice(["once", "once", "twice", "twice_barrier_between", "barrier_then_twice", "twice_first", "thrice", "twice_two_barriers_between", "shared_wires", "shared_wires"])
        arg = {"target": a["id"], "gate": s, "form": form}
        if form == "shared_wires":
            # ONE wires list object handed to two different gates (or one gate with two params):
            # what a caller does who builds a circuit from tuples with a reused variable
            arity = len(s["w"])
            same = {1: ["X", "Y", "Z", "H", "S", "T", "P"], 2: ["CX", "CZ", "CP", "SWAP", "MCtrlH"], 3: ["CCX", "MCX", "MCZ", "MCtrlX", "MCtrlY"]}.get(arity, list(MULTI))
            g2 = self.r.choice([g for g in same if g != s["g"]] or same)
            s2 = {"g": g2, "w": list(s["w"])}
            if g2 in PARAM:
                s2["p"] = self.r.choice(ANGLES)
            arg["gate2"] = s2
        self.add("iadd_gate", arg, [a["id"]])
        return True

    def b_repeat(self):
        a = self.pick()
        if a is None:
            return False
        res = {"n": a["n"], "enh": a["enh"], "anc": a.get("anc")}
        self.add("repeat", {"target": a["id"], "n": self.r.choice([1, 2, 2, 3, 3, 4, 5, 6])}, [a["id"]], res)
        self.then_ri(res)
        return True

    def b_copy(self):
        a = self.pick()
        if a is None:
            return False
        van = self.r.random() < 0.3
        self.add("copy", {"target": a["id"], "vanilla": van}, [a["id"]], {"n": a["n"], "enh": a["enh"] and not van, "anc": a.get("anc") and not van})
        return True

    def b_gate(self):
        a = self.pick()
        if a is None:
            return False
        r = self.r
        specs = [rand_spec(r, a["n"], self.gset)]
        if r.random() < 0.25:
            specs[0]["by_name"] = True  # address the qubits by their current names instead of indices
            if r.random() < 0.3:
                specs[0]["as_symbol"] = True
        if r.random() < 0.4 and specs[0]["g"] != "BARRIER":
            # the same gate again (a cancelling or non-cancelling identical adjacent pair),
            # optionally separated by / preceded by a barrier
            form = r.randrange(3)
            if form == 0:
                specs = [specs[0], dict(specs[0])]
            elif form == 1:
                specs = [specs[0], {"g": "BARRIER", "w": []}, dict(specs[0])]
            else:
                specs = [{"g": "BARRIER", "w": []}, specs[0], dict(specs[0])]
        self.add("gate", {"target": a["id"], "gates": specs}, [a["id"]])
        return True

    def b_remove_identities(self):
        a = self.pick(lambda e: e["enh"])
        if a is None:
            return False
        self.add("remove_identities", {"target": a["id"]}, [a["id"]])
        return True

    def b_qft_iqft(self):
        a = self.pick()
        if a is None:
            return False
        r = self.r
        wl = r.sample(range(a["n"]), r.randint(1, a["n"]))
        if self.cfg["arm"] == "natural-faults" and len(wl) >= 2 and r.random() < 0.3:
            # F1: a qubit named twice -- the library refuses it part-way through qft (duplicate qubit in a gate); the
            # target is whatever it is then (re-synchronised), everybody else and every LATER qft / iqft must be fine
            wl[-1] = wl[0]
            self.add("qft_iqft", {"target": a["id"], "wl": wl, "by_name": False, "as_tuple": r.random() < 0.2, "fault": "dup"}, [a["id"]])
            return True
        self.add("qft_iqft", {"target": a["id"], "wl": wl, "by_name": r.random() < 0.25, "as_tuple": r.random() < 0.2}, [a["id"]])
        return True

    def b_opaque(self):
        """public mutators whose effect the model does not predict: the target is re-synchronised
        from the real object, everybody else must stay as they were (and stay correct later)"""
        r = self.r
        a = self.pick()
        if a is None:
            return False
        kinds = ["set_name", "del_name", "add_named_qubit"]
        if a["enh"]:
            kinds += ["add_ancilla", "get_free_ancilla", "uncompute_all", "mark_uncompute", "map_qubit"]
        k = r.choice(kinds)
        arg = {"what": k, "i": r.randrange(a["n"]), "j": r.randrange(a["n"]), "promote": r.random() < 0.5, "tag": r.randrange(1000)}
        self.add("opaque", dict(arg, target=a["id"]), [a["id"]])
        if k == "add_named_qubit":
            a["n"] += 1
        elif k == "add_ancilla":
            a["n"] += 1
            a["free"] = a.get("free", 0) + 1
        elif k == "get_free_ancilla":
            if a.get("free", 0) > 0:
                a["free"] -= 1
            else:
                a["n"] += 1
        return True

    def b_add_qubit(self):
        a = self.pick(lambda e: e["n"] < MAX_Q)
        if a is None:
            return False
        self.add("add_qubit", {"target": a["id"]}, [a["id"]])
        a["n"] += 1
        return True

    def b_forget(self):
        if len(self.pool) < 3:
            return False
        a = self.r.choice(self.pool)
        self.add("forget", {"target": a["id"]}, [a["id"]])
        self.pool = [e for e in self.pool if e["id"] != a["id"]]
        return True

    def run(self):
        r = self.r
        n = self.cfg["nops"]
        guard = 0
        self.b_new()
        while len(self.ops) < n and guard < 10 * n:
            guard += 1
            kind = wchoice(r, sorted(self.w.items()))
            getattr(self, "b_" + kind)()
        faults = []
        if self.cfg["arm"] == "interrupt":
            # Ctrl-C at the k-th library source line of a composition operator. k is part of the plan itself (no
            # estimate to freeze): skewed to small values, because these operators run 10-100 lines; a k beyond the
            # operator's last line simply does not fire (counted)
            rf = rng_for(self.seed, "faults")
            cand = [o["id"] for o in self.ops if o["kind"] in INTERRUPTIBLE]
            for _ in range(rf.randint(1, 4)):
                if cand:
                    faults.append({"op": rf.choice(cand), "kind": "interrupt", "frac": 0.0, "k": 1 + int((rf.random() ** 2) * rf.choice([12, 40, 120]))})
        return {"prop": PROP, "seed": self.seed, "tier": self.tier, "cfg": self.cfg, "ops": self.ops, "faults": faults}


def generate(seed, tier, env=None, canaries=None):
    return Gen(seed, tier).run()


def generate_lifetime(seed, tier, nseg=None, canaries=None):
    r = rng_for(seed, "lifetime")
    env = {"hashseed": r.choice([0, 1, 2, 3]), "cache": 1000}
    n = nseg or SEGMENTS[tier]
    segs = [generate(int(digest([seed, j], 15), 16), tier) for j in range(n)]
    return {"prop": PROP, "seed": seed, "tier": tier, "env": env, "segments": segs}


# ------------------------------------------------------------------ execution


def name_of(names, i):
    """the name the HARNESS remembers for qubit i (last one given wins), or the index itself"""
    for nm in reversed(list(names)):
        if names[nm] == i:
            return nm
    return i


def build(qc, spec, names=None):
    """issue one gate through the library's builder API"""
    from qlasskit.qcircuit import gates

    g, w, p = spec["g"], spec["w"], spec.get("p")
    if spec.get("by_name") and g not in ("I", "P") and names is not None:
        # I and P go through append(), which takes indices only. The names are the ones the harness
        # remembers for these qubits (taken from the circuit when it entered the pool, updated only by
        # explicit naming calls): a composition operator that silently rebinds a name sends the gate elsewhere
        w = [name_of(names, i) for i in w]
        if spec.get("as_symbol"):
            # the third way of addressing a qubit: a sympy Symbol of its name (what the compiler itself uses)
            from sympy import Symbol

            w = [Symbol(x) if isinstance(x, str) else x for x in w]
    if g == "BARRIER":
        qc.barrier()
    elif g == "H":
        qc.h(w[0])
    elif g == "X":
        qc.x(w[0])
    elif g == "Y":
        qc.y(w[0])
    elif g == "Z":
        qc.z(w[0])
    elif g == "T":
        qc.t(w[0])
    elif g == "S":
        qc.s(w[0])
    elif g == "I":
        qc.append(gates.I(), [w[0]])
    elif g == "P":
        qc.append(gates.P(), [w[0]], p)
    elif g == "CX":
        qc.cx(w[0], w[1])
    elif g == "CZ":
        qc.cz(w[0], w[1])
    elif g == "CP":
        qc.cp(p, w[0], w[1])
    elif g == "SWAP":
        qc.swap(w[0], w[1])
    elif g == "CCX":
        qc.ccx(w[0], w[1], w[2])
    elif g == "MCX":
        qc.mcx(list(w[:-1]), w[-1])
    elif g == "MCZ":
        qc.mctrl(gates.Z(), list(w[:-1]), w[-1])
    elif g in ("MCtrlX", "MCtrlH", "MCtrlY"):
        qc.mctrl(getattr(gates, g[-1])(), list(w[:-1]), w[-1])
    elif g == "MCtrlP":
        qc.mctrl(gates.P(), list(w[:-1]), w[-1], p)
    else:
        raise RuntimeError("unknown gate spec " + g)


def gate_object(spec):
    from qlasskit.qcircuit import gates

    g = spec["g"]
    if g in ("MCX",):
        return gates.MCX(len(spec["w"]) - 1)
    if g == "MCZ":
        return gates.MCtrl(gates.Z(), len(spec["w"]) - 1)
    if g in ("MCtrlX", "MCtrlH", "MCtrlY", "MCtrlP"):
        return gates.MCtrl(getattr(gates, g[-1])(), len(spec["w"]) - 1)
    if g == "SWAP":
        return gates.Swap()
    return getattr(gates, g)()


def struct_fp(qc):
    """gate list, qubit count, qubit map -- and the state that decides what a later uncompute() /
    get_free_ancilla() does (gates_computed, ancilla sets): an operand whose bookkeeping was
    changed by an operator has been modified"""
    import fingerprint as F

    d = F.fp_circuit(qc)
    d["internal"] = {"gates_computed": F.fp_gates(getattr(qc, "gates_computed", []))}
    for f in ("ancilla_lst", "free_ancilla_lst", "marked_ancillas"):
        if hasattr(qc, f):
            d["internal"][f] = sorted(getattr(qc, f))
    return d


def run_segment(plan, ctx, detail=False, table=None):
    import gc
    import random

    import fingerprint as F
    np = _np()

    from qlasskit.qcircuit import QCircuit, QCircuitEnhanced

    cfg, ops = plan["cfg"], plan["ops"]
    random.seed(cfg.get("rseed", 0))
    objs, model, sfp, names = {}, {}, {}, {}
    faults = {}
    for f in plan.get("faults", []):
        faults.setdefault(f["op"], []).append(f)
    tracer = None
    if faults:
        from node import get_tracer

        tracer = get_tracer(ctx.src_prefix)
    placed = []
    records = []
    violation = None
    probes = {}
    derived = {}  # id -> set of ids it was derived from / composed with (aliasing graph)
    touched_after_use = set()
    used_as_operand = set()
    shapes = []

    def probe(k):
        probes[k] = probes.get(k, 0) + 1

    def viol(oracle, op, role, changed, **kw):
        v = {"oracle": oracle, "op": op["id"], "op_kind": op["kind"], "role": role, "changed": sorted(changed)}
        v.update(kw)
        return v

    for op in ops:
        oid, k, a = op["id"], op["kind"], op["a"]
        rec = {"i": oid, "kind": k}
        if any(u not in objs for u in op["uses"]):
            rec["outcome"] = "skipped"
            records.append(rec)
            continue
        if any(objs[int(u)].num_qubits != w for u, w in op.get("widths", {}).items() if int(u) in objs):
            rec["outcome"] = "skipped:width"
            records.append(rec)
            probe("skipped_width_drift")
            continue
        tgt = a.get("target")
        other = a.get("other")
        expect_fault = "fault" in a
        new_obj, new_model = None, None
        ri_uncompute = None
        opaque_resync = False
        mutated = None  # id of the entry this op is allowed to change
        outcome = "ok"
        n_before = len(objs[tgt].gates) if tgt in objs else 0
        flist = sorted([f["k"], f["kind"]] for f in faults.get(oid, []))
        if flist:
            tracer.arm([(f[0], f[1]) for f in flist])
            tracer.start()
        try:
            if k == "new":
                if a.get("anc"):
                    qc = QCircuitEnhanced(a["n"] - a["anc"])
                    for _ in range(a["anc"]):
                        qc.add_ancilla(is_free=False)
                elif a.get("names"):
                    qc = (QCircuitEnhanced if a["enh"] else QCircuit)(0)
                    for nm in a["names"]:
                        qc.add_qubit(nm)
                else:
                    qc = (QCircuitEnhanced if a["enh"] else QCircuit)(a["n"])
                for s in a["gates"]:
                    build(qc, s)
                new_obj, new_model = qc, unitary_of_specs(a["gates"], a["n"])
            elif k == "random":
                random.seed(a["rseed"])
                qc = QCircuit.random(a["n"], a["depth"])
                new_obj, new_model = qc, unitary_of_circuit(qc)  # trusted at creation only
            elif k == "from_qlassf":
                from qlasskit import qlassf

                qc = qlassf(a["src"]).circuit()
                if qc.num_qubits > MAX_Q + 1:
                    raise RuntimeError("too wide")
                new_obj, new_model = qc, unitary_of_circuit(qc)  # trusted at creation only
            elif k == "append_circuit":
                mutated = tgt
                objs[tgt].append_circuit(objs[other], list(a["qubits"]))
                if not expect_fault:
                    new_model = lift(model[other], a["qubits"], objs[tgt].num_qubits) @ model[tgt]
            elif k == "add":
                c = objs[tgt] + objs[other]
                nb = objs[other].num_qubits
                new_obj, new_model = c, lift(model[other], list(range(nb)), objs[tgt].num_qubits) @ model[tgt]
            elif k == "iadd":
                mutated = tgt
                t = objs[tgt]
                t += objs[other]
                if t is not objs[tgt]:
                    raise RuntimeError("+= returned another object")
                nb = objs[other].num_qubits
                new_model = lift(model[other], list(range(nb)), objs[tgt].num_qubits) @ model[tgt]
            elif k == "iadd_gate":
                mutated = tgt
                t = objs[tgt]
                s = a["gate"]
                form = a.get("form", "once")
                go = gate_object(s)
                from qlasskit.qcircuit import gates as _g

                if form == "barrier_then_twice":
                    t.barrier()
                wires_obj = list(s["w"])
                t += (go, wires_obj, s.get("p"))
                new_model = apply(model[tgt], spec_matrix(s), s["w"], objs[tgt].num_qubits)
                if form == "shared_wires":
                    s2 = a["gate2"]
                    t += (gate_object(s2), wires_obj, s2.get("p"))
                    new_model = apply(new_model, spec_matrix(s2), s2["w"], objs[tgt].num_qubits)
                    probe("two_gates_sharing_one_wires_list")
                elif form != "once":
                    if form == "twice_barrier_between":
                        t.barrier()
                    if form == "twice_two_barriers_between":
                        t.barrier()
                        t.barrier()
                    t += (go, list(s["w"]), s.get("p"))
                    new_model = apply(new_model, spec_matrix(s), s["w"], objs[tgt].num_qubits)
                    if form == "thrice":
                        t += (go, list(s["w"]), s.get("p"))
                        new_model = apply(new_model, spec_matrix(s), s["w"], objs[tgt].num_qubits)
                    probe("same_gate_object_twice:" + form)
                    if s["g"] in ("S", "T", "P", "CP"):
                        probe("non_self_inverse_identical_pair")
                    if len(objs[tgt].gates) <= 3:
                        probe("identical_pair_at_start_of_circuit")
            elif k == "repeat":
                c = objs[tgt].repeat(a["n"])
                new_obj, new_model = c, np.linalg.matrix_power(model[tgt], a["n"])
            elif k == "copy":
                c = objs[tgt].copy(vanilla=True) if a["vanilla"] else objs[tgt].copy()
                new_obj, new_model = c, model[tgt].copy()
            elif k == "gate":
                mutated = tgt
                U = model[tgt]
                for s in a["gates"]:
                    build(objs[tgt], s, names.get(tgt))
                    if s["g"] != "BARRIER":
                        U = apply(U, spec_matrix(s), s["w"], objs[tgt].num_qubits)
                new_model = U
            elif k == "remove_identities":
                mutated = tgt
                import copy as _copy

                twin = _copy.deepcopy(objs[tgt]) if hasattr(objs[tgt], "ancilla_lst") else None
                objs[tgt].remove_identities()
                new_model = model[tgt]
                if twin is not None and twin.ancilla_lst:
                    # what the bookkeeping makes a LATER uncompute() do must not depend on whether the
                    # pairs were removed first (the compiler's own order is remove_identities, then uncompute)
                    probe_ = _copy.deepcopy(objs[tgt])
                    anc = sorted(twin.ancilla_lst)
                    probe_.uncompute(to_mark=list(anc))
                    twin.uncompute(to_mark=list(anc))
                    if probe_.num_qubits == twin.num_qubits and probe_.num_qubits <= MAX_Q + 2:
                        ri_uncompute = close(unitary_of_circuit(probe_), unitary_of_circuit(twin))
                        probe("remove_identities_then_uncompute_checked")
            elif k == "qft_iqft":
                mutated = tgt
                wl_ = list(a["wl"])
                if a.get("by_name"):
                    wl_ = [name_of(names[tgt], i) for i in wl_]
                objs[tgt].qft(tuple(wl_) if a.get("as_tuple") else list(wl_))
                objs[tgt].iqft(tuple(wl_) if a.get("as_tuple") else list(wl_))
                new_model = model[tgt]
            elif k == "opaque":
                mutated = tgt
                qc = objs[tgt]
                w = a["what"]
                nq = qc.num_qubits
                i, j = a["i"] % max(nq, 1), a["j"] % max(nq, 1)
                if w == "set_name":
                    qc[f"n{a['tag']}"] = i
                elif w == "del_name":
                    del qc[qc.get_key_by_index(i)]
                elif w == "add_named_qubit":
                    qc.add_qubit(f"x{a['tag']}")
                elif w == "add_ancilla":
                    qc.add_ancilla()
                elif w == "get_free_ancilla":
                    qc.get_free_ancilla()
                elif w == "uncompute_all":
                    qc.uncompute_all(keep=[i])
                elif w == "mark_uncompute":
                    qc.mark_ancilla(i)
                    qc.mark_ancilla(j)
                    qc.uncompute()
                elif w == "map_qubit":
                    qc.map_qubit(f"m{a['tag']}", i, promote=a["promote"])
                opaque_resync = True
            elif k == "add_qubit":
                mutated = tgt
                n0 = objs[tgt].num_qubits
                objs[tgt].add_qubit()
                new_model = widen(model[tgt], n0, n0 + 1)
            elif k == "forget":
                objs.pop(tgt, None)
                model.pop(tgt, None)
                sfp.pop(tgt, None)
                names.pop(tgt, None)
                gc.collect()
            else:
                raise RuntimeError("unknown op " + k)
        except KeyboardInterrupt:
            outcome = "faulted:interrupt"
        except Exception as e:
            outcome = "raised:" + type(e).__name__
            rec["msg"] = str(e)[:200]
        finally:
            if flist:
                tracer.stop()
        if flist:
            if any(f[0] == "interrupt" for f in tracer.fired):
                # the operator was interrupted: its result is lost, its target is whatever it is now (the statement is
                # silent about a call that did not return) -- but its OPERANDS and everybody else must be as before
                outcome, new_obj, new_model, ri_uncompute = "faulted:interrupt", None, None, None
                rec["fired"] = [list(f) for f in tracer.fired]
                probe("fired_in_op_interrupt")
                probe("interrupted:" + k)
            else:
                probe("interrupt_planned_beyond_the_operator's_last_line")
            tracer.pending = []
            for f in faults.get(oid, []):
                placed.append({"op": oid, "kind": f["kind"], "frac": f.get("frac", 0.0), "k": f["k"], "how": "plan"})
        rec["outcome"] = outcome
        records.append(rec)

        # ---- reach measures
        if mutated is not None and mutated in used_as_operand:
            touched_after_use.add(mutated)
            probe("entry_mutated_after_being_operand_or_result")
        for u in (other,):
            if u is not None:
                used_as_operand.add(u)
        if new_obj is not None:
            used_as_operand.add(oid)
            if tgt is not None:
                used_as_operand.add(tgt)
        if k in ("append_circuit", "iadd") and not expect_fault and outcome == "ok":
            if shapes and shapes[-1][:3] == (k, tgt, other):
                probe("same_operand_composed_twice_adjacently")
            if k == "append_circuit" and list(a["qubits"]) != list(range(len(a["qubits"]))):
                probe("remap_with_non_identity_permutation")
            if k == "append_circuit" and objs[other].num_qubits < objs[tgt].num_qubits:
                probe("remap_onto_wider_circuit")
            if tgt == other:
                probe("circuit_composed_with_itself")
        if k == "copy" and outcome == "ok" and type(objs[tgt]).__name__ == "QCircuitEnhanced":
            probe("copy_of_enhanced")
        if k == "remove_identities" and outcome == "ok":
            probe("remove_identities")
            if len(objs[tgt].gates) < n_before:
                probe("remove_identities_removed_something")
        if k == "qft_iqft":
            wl = list(a["wl"])
            if wl != sorted(wl):
                probe("qft_on_unsorted_list")
            if len(wl) < objs[tgt].num_qubits:
                probe("qft_on_strict_subset")
        if expect_fault:
            probe("natural_fault_" + a["fault"] + ("_raised" if outcome != "ok" else "_not_raised"))
        shapes.append((k, tgt, other, outcome.split(":")[0]))

        if k == "opaque":
            probe("opaque:" + a["what"] + ("" if outcome == "ok" else "_raised"))
            if tgt in objs:
                try:
                    if objs[tgt].num_qubits > MAX_Q + 2:
                        raise RuntimeError("too wide for the model")
                    model[tgt] = unitary_of_circuit(objs[tgt])
                    names[tgt] = dict(objs[tgt].qubit_map)  # explicit naming calls: the harness follows
                except Exception:
                    objs.pop(tgt, None)
                    model.pop(tgt, None)
                    sfp.pop(tgt, None)
        # ---- A0: the statement's operators complete on well-formed operands
        if outcome != "ok" and outcome != "faulted:interrupt" and not expect_fault and k not in ("from_qlassf", "opaque"):
            violation = viol("A0", op, "target", [outcome], msg=rec.get("msg"))
        # ---- bookkeeping of the model
        if k == "opaque":
            pass
        elif outcome == "ok" and not expect_fault:
            if new_obj is not None:
                objs[oid] = new_obj
                model[oid] = new_model
                names[oid] = dict(new_obj.qubit_map)  # trusted at creation
            elif mutated is not None and new_model is not None:
                model[mutated] = new_model
                if k == "add_qubit":
                    names[mutated] = dict(objs[mutated].qubit_map)
        elif mutated is not None and mutated in objs and violation is None:
            # a failed / refused call: the statement is silent about the target; re-synchronise.  Whether the refused
            # call left a trace in its target is counted (reach measure, no verdict: DESIGN 10.21)
            if outcome != "faulted:interrupt" and mutated in sfp:
                probe("refused_call_" + ("left_a_trace_in_its_target:" if struct_fp(objs[mutated]) != sfp[mutated] else "left_its_target_unchanged:") + k)
            try:
                model[mutated] = unitary_of_circuit(objs[mutated])
            except Exception:
                objs.pop(mutated, None)
        # ---- A1 on the entry this op produced or was allowed to change
        if violation is None and outcome == "ok" and not expect_fault and k != "opaque":
            chk = oid if new_obj is not None else mutated
            if chk is not None and chk in objs:
                qc = objs[chk]
                if 2 ** qc.num_qubits != model[chk].shape[0]:
                    violation = viol("A1", op, "result" if new_obj is not None else "target", ["num_qubits"], real=qc.num_qubits, model=int(math.log2(model[chk].shape[0])))
                else:
                    try:
                        Ur = unitary_of_circuit(qc)
                        if not close(Ur, model[chk]):
                            violation = viol("A1", op, "result" if new_obj is not None else "target", ["unitary"], max_abs_diff=float(np.max(np.abs(Ur - model[chk]))))
                    except Exception as e:
                        violation = viol("A1", op, "result" if new_obj is not None else "target", ["unobservable:" + type(e).__name__])
                if violation is None and k == "remove_identities" and len(qc.gates) > n_before:
                    violation = viol("A1", op, "target", ["more_gates"])
                if violation is None and k == "remove_identities" and ri_uncompute is False:
                    violation = viol("A1", op, "target", ["unitary after a later uncompute()"])
        # ---- A2 over the whole pool: nobody but the target changed
        if violation is None:
            for j, qc in objs.items():
                cur = struct_fp(qc)
                if j == oid and new_obj is not None or j not in sfp:
                    sfp[j] = cur
                    continue
                if cur != sfp[j]:
                    if j == mutated:
                        sfp[j] = cur
                        continue
                    role = "other" if j == other else ("source" if j == tgt else "bystander")
                    violation = viol("A2", op, role, F.changed_fields(sfp[j], cur), victim=j, before=sfp[j], after=cur)
                    break
        if violation is not None:
            break
        # self-composition doubles gate lists: entries that outgrow the model are dropped
        for j in [j for j, qc in objs.items() if len(qc.gates) > MAX_GATES]:
            objs.pop(j, None)
            model.pop(j, None)
            sfp.pop(j, None)
            probe("dropped_too_many_gates")
    objs.clear()
    model.clear()
    nt = bool(touched_after_use)
    opk, outc = {}, {}
    for r_ in records:
        opk[r_["kind"]] = opk.get(r_["kind"], 0) + 1
        oc = r_["outcome"].split(":")[0]
        outc[oc] = outc.get(oc, 0) + 1
    strip = lambda rr: {k: v for k, v in rr.items() if k != "msg"}
    dg = digest([[strip(r_) for r_ in records], _vclass(violation)])
    return {"status": "ok", "digest": dg, "violation": violation, "steps": len(records), "placed": placed,
            "stats": {"ops": opk, "outcomes": outc, "probes": probes, "arm": cfg["arm"], "nontrivial": {"yes": 1 if nt else 0},
                      "faults_planned": {"interrupt": len(plan.get("faults", []))}, "faults_fired": {"interrupt": sum(len(r_.get("fired", [])) for r_ in records)},
                      "fired_sites": sorted({f"{f[1]}:{f[2]}" for r_ in records for f in r_.get("fired", [])}), "states": [digest(shapes[: i + 1][-4:], 10) for i in range(len(shapes))]}}


def _vclass(v):
    if v is None:
        return None
    return [v["oracle"], v["op_kind"], v.get("role", ""), sorted(v.get("changed", []))]


def violation_class(v):
    return _vclass(v)


# ------------------------------------------------------------------ shrinking / reporting


def dependents(plan, removed):
    bad = set(removed)
    changed = True
    while changed:
        changed = False
        for op in plan["ops"]:
            if op["id"] not in bad and any(u in bad for u in op["uses"]):
                bad.add(op["id"])
                changed = True
    return bad


def without_ops(plan, removed):
    rem = set(removed)
    # removing a mutation does not invalidate later users of the same entry: only creators propagate
    creators = {op["id"] for op in plan["ops"] if op["kind"] in ("new", "random", "from_qlassf", "add", "repeat", "copy")}
    bad = set(rem)
    changed = True
    while changed:
        changed = False
        for op in plan["ops"]:
            if op["id"] not in bad and any(u in bad and u in creators for u in op["uses"]):
                bad.add(op["id"])
                changed = True
    p = dict(plan)
    p["ops"] = [op for op in plan["ops"] if op["id"] not in bad]
    p["faults"] = [f for f in plan.get("faults", []) if f["op"] not in bad]
    # add_qubit changes the width known to later ops: dropping one may make later wires invalid;
    # such candidates simply fail the test and are discarded by ddmin
    return p


def simplify_candidates(plan):
    out = []
    for i in range(len(plan.get("faults", []))):
        p = dict(plan)
        p["faults"] = plan["faults"][:i] + plan["faults"][i + 1 :]
        out.append(p)
    for idx, op in enumerate(plan["ops"]):
        a = op["a"]
        if op["kind"] in ("new", "gate") and len(a.get("gates", [])) > 1:
            for gi in range(len(a["gates"])):
                p = dict(plan)
                p["ops"] = list(plan["ops"])
                o2 = dict(op)
                o2["a"] = dict(a, gates=a["gates"][:gi] + a["gates"][gi + 1 :])
                p["ops"][idx] = o2
                out.append(p)
        if op["kind"] == "repeat" and a["n"] > 1:
            p = dict(plan)
            p["ops"] = list(plan["ops"])
            o2 = dict(op)
            o2["a"] = dict(a, n=a["n"] - 1)
            p["ops"][idx] = o2
            out.append(p)
    return out


def describe(plan):
    out = []
    for op in plan["ops"]:
        a = op["a"]
        if "gates" in a:
            gs = " ".join(f"{g['g']}{g['w']}" + (f"({g['p']:.3f})" if g.get("p") is not None else "") for g in a["gates"])
            rest = {k: v for k, v in a.items() if k != "gates"}
            out.append(f"#{op['id']} {op['kind']} {canon(rest)} [{gs}]")
        elif "src" in a:
            out.append(f"#{op['id']} {op['kind']} {a['src'].strip().splitlines()[0][:70]}")
        else:
            out.append(f"#{op['id']} {op['kind']} {canon(a)}")
    for f in plan.get("faults", []):
        out.append(f"fault {f['kind']} in op #{f['op']} at library line {f.get('k')}")
    return out


def nontrivial_key(plan, result):
    nt = bool((result or {}).get("stats", {}).get("nontrivial", {}).get("yes"))
    # distinct = aliasing graph (who was derived from / composed with whom, by which op) + op sequence
    shape = [[op["kind"], [op["id"] - u for u in op["uses"]], op["a"].get("vanilla"), op["a"].get("n") if op["kind"] == "repeat" else None, "fault" in op["a"]] for op in plan["ops"]]
    return nt, digest([shape, [[f["op"], f["kind"], f.get("k")] for f in plan.get("faults", [])]], 16)


RULE = (
    "history = seeded sequence of composition operators (append_circuit with injective remaps, +, +=, += gate tuple, repeat(1..6), copy, copy(vanilla), "
    "remove_identities, qft;iqft on any qubit sub-list, add_qubit) and builder calls on ANY member of a pool of QCircuit/QCircuitEnhanced objects (own generator over "
    "I X Y Z H S T P CX CZ CP SWAP CCX MCX MCtrl(Z) barrier, QCircuit.random, compiled functions), plus natural faults (wider other, wrong-length qubit list) and, in its own arm, KeyboardInterrupt at the k-th library source line of a composition operator. "
    "non-trivial = some entry is mutated after having been an operand or a result of a composition. distinct = op sequence with operand distances (the aliasing graph)."
)
COMPONENTS = {
    "real": ["qlasskit.qcircuit.QCircuit / QCircuitEnhanced / gates from the tree under test", "the compiler for from_qlassf entries", "numpy"],
    "stub": ["reference model: qubit count + unitary composed by the model's own rule", "gate -> matrix table (shared by model and observer)"],
}
ASSUMPTIONS = [
    "one gate-list -> matrix function interprets both the model's gate specs and the real gate objects (P with no angle counts as the identity on both sides)",
    "QCircuit.random and compiled circuits are trusted at creation only; from then on the model is compositional",
    "qubit remappings are injective and in range (anything else is misuse the statement does not cover)",
    "repeat(n) is exercised for n >= 1",
    "exploration: a clean batch is evidence, not proof",
]
