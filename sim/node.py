"""The simulated host process (DESIGN §2.2, as revised in §10).

Started by the runner as
    setarch x86_64 -R env PYTHONHASHSEED=<h> SYMPY_CACHE_SIZE=<c> [SYMPY_USE_CACHE=no]
        /venv/bin/python /verif/sim/node.py --repo <tree> [--backends qiskit,cirq,qutip]

One node is one *process lifetime*: it imports the library, immediately forks a
pristine *zygote* (which never calls the library and only forks again, once per
requested reference closure), and then executes the histories (segments) it is
sent, one after the other, in this very process -- so history j runs on top of
whatever histories 1..j-1 left behind, which is what C10 quantifies over.
Jobs arrive as JSON lines on stdin, results leave as JSON lines on stdout.

`--oneshot` executes one closure job in *this* fresh interpreter without any
fork: the fork == fresh-interpreter cross-check.
"""
import gc
import importlib
import json
import os
import pkgutil
import select
import shutil
import signal
import sys
import tempfile
import time
import traceback
import types

HERE = os.path.dirname(os.path.abspath(__file__))
if HERE not in sys.path:
    sys.path.insert(0, HERE)


# --------------------------------------------------------------------------- fault injector


class Tracer:
    """F2-F4 injector (DESIGN §2.3): counts `line` events of code objects that live under
    <repo>/qlasskit/ (sys.monitoring, local LINE events: frames of sympy/qiskit cost nothing
    and are never torn) and fires the scheduled fault at the k-th one."""

    TOOL = 3

    def __init__(self, prefix):
        self.prefix = prefix
        self.plen = len(prefix)
        self.count = 0
        self.pending = []
        self.fired = []
        self.next_at = -1
        self.mon = sys.monitoring
        self.installed = False

    def install(self):
        if self.installed:
            return 0
        mon = self.mon
        try:
            mon.use_tool_id(self.TOOL, "qlasskit-verif")
        except ValueError:
            pass
        n = 0
        for co in library_code_objects(self.prefix):
            mon.set_local_events(self.TOOL, co, mon.events.LINE)
            n += 1
        self.installed = True
        return n

    def arm(self, faults):
        self.count = 0
        self.pending = sorted(faults)
        self.fired = []
        self.next_at = self.pending[0][0] if self.pending else -1

    def _cb(self, code, line):
        self.count += 1
        if self.count == self.next_at:
            k, kind = self.pending.pop(0)
            # several faults scheduled at the same instant fire one event apart
            self.next_at = max(self.pending[0][0], self.count + 1) if self.pending else -1
            self.fired.append([kind, code.co_filename[self.plen :], line, code.co_name])
            fire(kind)

    def start(self):
        self.mon.register_callback(self.TOOL, self.mon.events.LINE, self._cb)

    def stop(self):
        self.mon.register_callback(self.TOOL, self.mon.events.LINE, None)


def library_code_objects(prefix):
    seen, out = set(), []

    def walk(co):
        if co in seen:
            return
        seen.add(co)
        if co.co_filename.startswith(prefix):
            out.append(co)
        for c in co.co_consts:
            if isinstance(c, types.CodeType):
                walk(c)

    def funcs_of(v):
        if isinstance(v, types.FunctionType):
            yield v
        elif isinstance(v, (staticmethod, classmethod)):
            yield v.__func__
        elif isinstance(v, property):
            for g in (v.fget, v.fset, v.fdel):
                if g is not None:
                    yield g

    for name in sorted(sys.modules):
        if not (name == "qlasskit" or name.startswith("qlasskit.")):
            continue
        m = sys.modules[name]
        if m is None:
            continue
        for v in list(vars(m).values()):
            for f in funcs_of(v):
                if hasattr(f, "__code__"):
                    walk(f.__code__)
            if isinstance(v, type):
                for a in list(vars(v).values()):
                    for f in funcs_of(a):
                        if hasattr(f, "__code__"):
                            walk(f.__code__)
    return out


def fire(kind):
    if kind == "flush":
        from sympy.core.cache import clear_cache

        clear_cache()
    elif kind == "gc":
        gc.collect()
    elif kind == "interrupt":
        raise KeyboardInterrupt("injected")


def apply_env(cfg):
    """per-history ambient seams that are not interpreter start-up options"""
    import random

    random.seed(cfg.get("rseed", 0))
    if cfg.get("ipykernel"):
        sys.modules.setdefault("ipykernel", types.ModuleType("ipykernel"))
    else:
        sys.modules.pop("ipykernel", None)


# --------------------------------------------------------------------------- forks


def fork_call(fn, args, kw, timeout, tmp_root):
    """run fn(*args, tmpdir, **kw) in a fork of the calling process; JSON result.
    {"_timeout": True} / {"_crash": ...} when no verdict was produced."""
    tmpdir = tempfile.mkdtemp(prefix="h-", dir=tmp_root)
    r, w = os.pipe()
    pid = os.fork()
    if pid == 0:
        code = 0
        try:
            os.close(r)
            signal.signal(signal.SIGINT, signal.SIG_DFL)
            try:
                import faulthandler

                faulthandler.dump_traceback_later(timeout + 5, exit=True, file=sys.stderr)
            except Exception:
                pass
            try:
                res = fn(*args, tmpdir, **kw)
            except BaseException as e:  # harness error inside the child, never a verdict
                res = {"_crash": "child-exception", "exc": type(e).__name__, "tb": traceback.format_exc()[-3000:]}
            data = json.dumps(res).encode()
            with os.fdopen(w, "wb") as f:
                f.write(data)
        except BaseException:
            code = 3
        finally:
            os._exit(code)
    os.close(w)
    chunks = []
    deadline = time.monotonic() + timeout
    timed_out = False
    while True:
        left = deadline - time.monotonic()
        if left <= 0:
            timed_out = True
            break
        rl, _, _ = select.select([r], [], [], left)
        if not rl:
            timed_out = True
            break
        b = os.read(r, 1 << 20)
        if not b:
            break
        chunks.append(b)
    os.close(r)
    if timed_out:
        try:
            os.kill(pid, signal.SIGKILL)
        except ProcessLookupError:
            pass
    _, st = os.waitpid(pid, 0)
    shutil.rmtree(tmpdir, ignore_errors=True)
    if timed_out:
        return {"_timeout": True}
    if not chunks:
        return {"_crash": "no-output", "status": st}
    try:
        return json.loads(b"".join(chunks))
    except Exception:
        return {"_crash": "bad-json", "status": st}


def zygote_loop(rfd, wfd, tmp_root, timeout):
    """the pristine server: import-only, never calls the library itself; one fork per request"""
    rf = os.fdopen(rfd, "r")
    wf = os.fdopen(wfd, "w")
    for line in rf:
        line = line.strip()
        if not line:
            continue
        req = json.loads(line)
        if req.get("cmd") == "quit":
            break
        m = importlib.import_module(req["module"])
        fn = getattr(m, req["fn"])
        res = fork_call(fn, req["args"], req.get("kw", {}), timeout, tmp_root)
        wf.write(json.dumps(res) + "\n")
        wf.flush()
    os._exit(0)


_TRACER = None


def get_tracer(prefix):
    """one line counter per process (inherited, already installed, by forks)"""
    global _TRACER
    if _TRACER is None or _TRACER.prefix != prefix:
        _TRACER = Tracer(prefix)
    _TRACER.install()
    return _TRACER


class Ctx:
    """what a machine needs from its node"""

    def __init__(self, repo, timeout=60.0):
        self.repo = os.path.realpath(repo)
        self.src_prefix = os.path.join(self.repo, "qlasskit") + os.sep
        self.timeout = timeout
        self.memo = {}
        self.memo_hits = 0
        self.memo_misses = 0
        self.forks = 0
        self.tmp_root = tempfile.mkdtemp(prefix="qv-node-", dir="/dev/shm" if os.path.isdir("/dev/shm") else None)
        self.oneshot = False
        self.zy = None
        self.tracer = get_tracer(self.src_prefix)
        self.kind_lines = {}
        self.lines_table = {}
        self.segments_run = 0

    def start_zygote(self):
        r1, w1 = os.pipe()
        r2, w2 = os.pipe()
        sys.stdout.flush()
        pid = os.fork()
        if pid == 0:
            os.close(w1)
            os.close(r2)
            try:
                sys.stdin.close()
            except Exception:
                pass
            zygote_loop(r1, w2, self.tmp_root, self.timeout)
            os._exit(0)
        os.close(r1)
        os.close(w2)
        self.zy = (pid, os.fdopen(w1, "w"), os.fdopen(r2, "r"))

    def pristine(self, module, fn, args, kw=None):
        """fn(*args, tmpdir, **kw) in a fork of the pristine zygote (or, in --oneshot, right here)"""
        self.forks += 1
        if self.oneshot:
            m = importlib.import_module(module)
            tmpdir = tempfile.mkdtemp(prefix="h-", dir=self.tmp_root)
            try:
                return getattr(m, fn)(*args, tmpdir, **(kw or {}))
            finally:
                shutil.rmtree(tmpdir, ignore_errors=True)
        pid, wf, rf = self.zy
        wf.write(json.dumps({"module": module, "fn": fn, "args": args, "kw": kw or {}}) + "\n")
        wf.flush()
        line = rf.readline()
        if not line:
            return {"_crash": "zygote-died"}
        return json.loads(line)

    def tmpdir(self):
        return tempfile.mkdtemp(prefix="s-", dir=self.tmp_root)

    def cleanup(self):
        if self.zy is not None:
            pid, wf, rf = self.zy
            try:
                wf.write(json.dumps({"cmd": "quit"}) + "\n")
                wf.flush()
                wf.close()
            except Exception:
                pass
            try:
                os.waitpid(pid, 0)
            except Exception:
                pass
        shutil.rmtree(self.tmp_root, ignore_errors=True)


MACHINES = {"C10": "m_c10", "C08": "m_c08", "C14": "m_c14"}


def load_machine(prop):
    return importlib.import_module(MACHINES[prop])


def preimport(repo, backends):
    sys.path.insert(0, repo)
    import qlasskit  # noqa

    real = os.path.realpath(qlasskit.__file__)
    assert real.startswith(os.path.realpath(repo) + os.sep), f"qlasskit imported from {real}, wanted {repo}"
    # every submodule now, so that the line counter knows all of the library's code objects
    for mi in pkgutil.walk_packages(qlasskit.__path__, "qlasskit."):
        if any(x in mi.name for x in ("pennylane", "tweedledum", "tools")):
            continue
        try:
            importlib.import_module(mi.name)
        except Exception:
            pass
    import numpy  # noqa
    import sympy.physics.quantum.gate  # noqa
    import sympy.physics.quantum.qubit  # noqa

    for b in backends:
        try:
            if b == "qiskit":
                import qiskit  # noqa
                from qiskit import QuantumCircuit  # noqa
                from qiskit.circuit.library.standard_gates import ZGate  # noqa
            elif b == "cirq":
                import cirq  # noqa
            elif b == "qutip":
                import qutip_qip.qasm  # noqa
        except Exception:
            pass
    import qlasskit.qlassfun as qfm

    return sorted(n for n in vars(qfm) if not n.startswith("__"))


class SegmentTimeout(BaseException):
    pass


def main():
    import argparse

    ap = argparse.ArgumentParser()
    ap.add_argument("--repo", default="/repo")
    ap.add_argument("--backends", default="qiskit")
    ap.add_argument("--oneshot", action="store_true")
    ap.add_argument("--timeout", type=float, default=60.0)
    a = ap.parse_args()
    import warnings

    warnings.filterwarnings("ignore", category=SyntaxWarning)
    out = os.fdopen(os.dup(1), "w")
    # anything the library prints must not corrupt the protocol
    os.dup2(2, 1)
    names = preimport(a.repo, [b for b in a.backends.split(",") if b])
    ctx = Ctx(a.repo, a.timeout)
    ctx.oneshot = a.oneshot
    ctx.lib_globals = names
    ncode = len(library_code_objects(ctx.src_prefix))
    gc.collect()
    gc.freeze()  # import-time objects leave the collector's sight: collections stay cheap, forks share pages
    if not a.oneshot:
        ctx.start_zygote()
    out.write(json.dumps({"ready": True, "pid": os.getpid(), "hashseed": os.environ.get("PYTHONHASHSEED"), "cache": os.environ.get("SYMPY_CACHE_SIZE"), "use_cache": os.environ.get("SYMPY_USE_CACHE", "yes"), "lib_globals": len(names), "code_objects": ncode}) + "\n")
    out.flush()

    alarm = {"fired": False}

    def on_alarm(signum, frame):
        alarm["fired"] = True
        raise SegmentTimeout()

    signal.signal(signal.SIGALRM, on_alarm)
    try:
        for line in sys.stdin:
            line = line.strip()
            if not line:
                continue
            job = json.loads(line)
            if job.get("cmd") == "quit":
                break
            t0 = time.monotonic()
            dead = False
            try:
                m = load_machine(job["prop"])
                if job.get("closure"):
                    res = m.run_closure_only(job["plan"], job.get("k"), ctx)
                elif job.get("reftable") is not None:
                    res = m.run_reftable(job["reftable"], ctx)
                elif job.get("set_table") is not None:
                    ctx.table = job["set_table"]
                    res = {"status": "ok"}
                else:
                    signal.setitimer(signal.ITIMER_REAL, job.get("timeout", a.timeout))
                    try:
                        res = m.run_segment(job["plan"], ctx, detail=job.get("detail", False), table=getattr(ctx, "table", None))
                    finally:
                        signal.setitimer(signal.ITIMER_REAL, 0)
                    if alarm["fired"]:  # swallowed by a bare except somewhere: still a timeout
                        raise SegmentTimeout()
                    ctx.segments_run += 1
            except SegmentTimeout:
                res = {"status": "timeout"}
                dead = True  # this process's state is no longer a function of its plan: retire it
            except BaseException as e:
                res = {"status": "harness_error", "harness_error": type(e).__name__ + ": " + str(e), "tb": traceback.format_exc()[-3000:]}
            res["job"] = job.get("job")
            res["wall"] = round(time.monotonic() - t0, 4)
            res["node"] = {"forks": ctx.forks, "memo_hits": ctx.memo_hits, "memo_misses": ctx.memo_misses, "segments_run": ctx.segments_run, "retire": dead}
            out.write(json.dumps(res) + "\n")
            out.flush()
            if a.oneshot or dead:
                break
    finally:
        ctx.cleanup()


if __name__ == "__main__":
    main()
