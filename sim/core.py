"""Shared helpers: seed derivation, canonical JSON, digests (DESIGN §2.1, §2.4).

Nothing in here imports qlasskit, reads a clock or draws from a PRNG.
"""
import hashlib
import json
import random

GUARD_ENV = "QLASSKIT_VERIF"


def canon(obj) -> str:
    return json.dumps(obj, sort_keys=True, separators=(",", ":"), default=_default)


def _default(o):
    if isinstance(o, (set, frozenset)):
        return sorted(o)
    if isinstance(o, tuple):
        return list(o)
    return repr(o)


def digest(obj, n=16) -> str:
    return hashlib.sha256(canon(obj).encode()).hexdigest()[:n]


def run_seed(prop: str, verif_seed: int, i: int) -> int:
    """seed of run i of a batch: one integer decides the whole run"""
    return int(hashlib.sha256(f"{prop}:{verif_seed}:{i}".encode()).hexdigest()[:16], 16)


def rng_for(seed: int, *stream) -> random.Random:
    """independent PRNG streams derived from one run seed (order of draws in one
    stream never perturbs another)"""
    h = hashlib.sha256(("%d:" % seed + ":".join(map(str, stream))).encode()).hexdigest()
    return random.Random(int(h[:16], 16))


def wchoice(rng: random.Random, pairs):
    """weighted choice over a list of (item, weight); deterministic given rng"""
    tot = sum(w for _, w in pairs)
    x = rng.random() * tot
    acc = 0.0
    for it, w in pairs:
        acc += w
        if x < acc:
            return it
    return pairs[-1][0]
