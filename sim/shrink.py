"""Dependency-closed ddmin over a plan's op list, then faults / knobs / programs (DESIGN §2.5)."""
import math


def shrink(plan, machine, test, max_tests=120, log=None):
    """test(plan) -> True iff the same violation class persists (run in a fresh fork).
    Returns (smaller_plan, tests_used)."""
    used = 0

    def t(p):
        nonlocal used
        if used >= max_tests:
            return False
        used += 1
        return test(p)

    # 1. ddmin over ops
    n = 2
    while len(plan["ops"]) >= 2 and used < max_tests:
        ids = [op["id"] for op in plan["ops"]]
        chunk = int(math.ceil(len(ids) / n))
        progressed = False
        # try removing from the back first: later ops are usually bystanders
        starts = list(range(0, len(ids), chunk))[::-1]
        for i in starts:
            rem = ids[i : i + chunk]
            cand = machine.without_ops(plan, rem)
            if not cand["ops"] or len(cand["ops"]) >= len(plan["ops"]):
                continue
            if t(cand):
                plan = cand
                n = max(n - 1, 2)
                progressed = True
                if log:
                    log(f"shrink: {len(plan['ops'])} ops left")
                break
        if not progressed:
            if chunk <= 1:
                break
            n = min(len(ids), n * 2)
    # 2. faults, knobs, programs: greedy to a fixpoint
    changed = True
    while changed and used < max_tests:
        changed = False
        for cand in machine.simplify_candidates(plan):
            if t(cand):
                plan = cand
                changed = True
                break
    return plan, used
